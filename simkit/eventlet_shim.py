"""simkit.eventlet_shim — the eventlet primitives gunicorn.workers.geventlet uses, on the simulated kernel, so that the real
EventletWorker.run() (one acceptor green thread per listener running the real _eventlet_serve, the heartbeat loop, the graceful
stop under eventlet.Timeout(graceful_timeout), the kill of the acceptors afterwards), the real _eventlet_stop link and the real
AsyncWorker keep-alive loop execute.  Green threads are simulated threads of the worker process; the baton scheduler guarantees that
only one of them runs at a time, like a hub.

Fidelity assumptions (listed in evidence):
  * GreenPool(n).spawn blocks while n green threads of the pool are alive; waitall() returns when none is.
  * GreenThread.kill(exc) raises exc (default greenlet.GreenletExit) in the target at the blocking call it is suspended in, or instead of
    its function if it has not started; wait() returns the result or re-raises what ended the green thread; link(f, *a) calls f(gt, *a)
    in the dying green thread's context (immediately if it is already dead).
  * GreenSocket(listener) shares the listener's descriptor; accept() on it waits co-operatively (the description itself stays
    non-blocking); accepted connections do blocking I/O of their green thread.
  * Timeout(s, False) silently leaves the with-block when a blocking call inside it has waited s seconds; Timeout(s) raises itself.
  * SystemExit raised in any green thread ends the process (it reaches the hub and from there the main greenlet); any other exception
    that escapes a green thread is printed by the hub and the process goes on.
"""
from simkit import facade
from simkit.kernel import current_task, SimKilled
from simkit.gevent_shim import Timeout as _GTimeout


class GreenletExit(BaseException):
    pass


class StopServe(Exception):
    pass


class Timeout(_GTimeout):
    pass


class GreenThread:
    def __init__(self, sim, proc, fn, args, kw, name):
        self.dead = False
        self.result = None
        self.exc = None
        self.links = []
        self.task = sim.new_task(proc, self._main, name, False)
        self.task.greenlet = True
        proc.coop = True
        self.task.gt = self
        self._call = (fn, args, kw)

    def _main(self):
        fn, args, kw = self._call
        t = self.task
        if t.throw is not None:
            # killed before it ever ran: eventlet replaces the function by one that raises, runs main() for the sake of the links and
            # swallows the exception - nothing reaches the hub
            self.exc, t.throw = t.throw, None
            self.dead = True
            self._resolve_links()
            return
        try:
            self.result = fn(*args, **kw)
        except SimKilled:
            self.dead = True
            self.exc = GreenletExit()
            raise
        except BaseException as e:
            self.exc = e
            self.dead = True
            self._resolve_links()
            if isinstance(e, GreenletExit):
                return
            raise
        self.dead = True
        self._resolve_links()

    def _resolve_links(self):
        while self.links:
            f, a = self.links.pop(0)
            f(self, *a)

    def link(self, func, *args):
        if self.dead:
            func(self, *args)
        else:
            self.links.append((func, args))

    def wait(self):
        s, t, p = facade.ctx()
        if not self.dead:
            s.block(lambda: self.dead or self.task.state == "done", None, True, False)
        if self.exc is not None:
            raise self.exc
        return self.result

    def kill(self, *throw_args):
        kill(self, *throw_args)


def kill(g, *throw_args):
    """eventlet.greenthread.kill(g, [typ, val, tb] | [exc])"""
    if g.dead or g.task.state == "done":
        return
    if not throw_args:
        exc = GreenletExit()
    elif len(throw_args) >= 2 and isinstance(throw_args[1], BaseException):
        exc = throw_args[1]
    else:
        exc = throw_args[0]
        if isinstance(exc, type):
            exc = exc()
    s, t, p = facade.ctx()
    s.ev(p.name, "gt-kill", (g.task.name, type(exc).__name__))
    g.task.throw = exc
    if g.task is not t:
        # greenlet.throw switches into the target at once: it handles the exception (up to its next blocking call, or its end) before
        # the caller goes on
        tk = g.task
        s.block(lambda: tk.throw is None or tk.state == "done" or g.dead, None, True, False)


class GreenPool:
    def __init__(self, size=1000):
        self.size = size
        self.gts = []

    def _live(self):
        self.gts = [g for g in self.gts if not g.dead and g.task.state != "done"]
        return self.gts

    def free(self):
        return max(0, self.size - len(self._live()))

    def running(self):
        return len(self._live())

    def spawn(self, fn, *args, **kw):
        s, t, p = facade.ctx()
        if self.free() == 0:
            s.block(lambda: self.free() > 0, None, True, False)
        g = GreenThread(s, p, fn, args, kw, "%s.g%d" % (p.name, len(p.tasks)))
        self.gts.append(g)
        return g

    def waitall(self):
        s, t, p = facade.ctx()
        s.block(lambda: not self._live(), None, True, False)


class GreenSocket:
    """eventlet.greenio.GreenSocket around the listener: co-operative accept on a non-blocking description."""

    def sendfile(self, *a, **kw):       # present, so that patch_sendfile() leaves the class alone
        raise facade.SeamLeak("GreenSocket.sendfile on a listener")

    def __init__(self, sock):
        self.fd = sock
        self.act_non_blocking = False
        # as eventlet does: these are bound once, to the object that is the listener at construction time (so after
        # close() they fail with EBADF rather than with an AttributeError on gunicorn's emptied wrapper)
        self.close = sock.close
        self.fileno = sock.fileno
        self.getsockname = sock.getsockname

    def setblocking(self, flag):
        self.act_non_blocking = not flag

    def __getattr__(self, name):
        if name == "fd":
            raise AttributeError(name)
        return getattr(self.fd, name)

    def accept(self):
        s, t, p = facade.ctx()
        inner = getattr(self.fd, "sock", self.fd)
        while True:
            fd = inner.fd
            if fd not in p.fds:
                raise OSError(9, "Bad file descriptor")
            if not p.fds[fd].ofd.nonblock:
                return inner.accept()
            try:
                return inner.accept()
            except BlockingIOError:
                if self.act_non_blocking:
                    raise
            s.block(lambda: fd not in p.fds or facade._readable(s, p, fd), None, True, False)


class _Event:
    """eventlet.event.Event: send() once, ready(), wait(timeout) -> the value sent, or None when the time is up"""

    def __init__(self):
        self._sent = False
        self._value = None

    def ready(self):
        return self._sent

    def send(self, result=None, exc=None):
        assert not self._sent, "Trying to re-send() an already-triggered event."
        self._sent, self._value = True, result
        facade.sim().tick()

    def wait(self, timeout=None):
        s, t, p = facade.ctx()
        if not self._sent:
            s.block(lambda: self._sent, timeout, True, False)
        s.tick()
        return self._value if self._sent else None


class _EventMod:
    Event = _Event


class _GreenPoolMod:
    GreenPool = GreenPool


class _GreenThreadMod:
    GreenThread = GreenThread

    @staticmethod
    def getcurrent():
        t = current_task()
        g = getattr(t, "gt", None)
        if g is None:
            g = _MainGreenlet(t)
            t.gt = g
        return g

    kill = staticmethod(kill)


class _MainGreenlet:
    def __init__(self, task):
        self.task = task
        self.dead = False


class FakeEventlet:
    __version__ = "0.41-sim"
    Timeout = Timeout
    StopServe = StopServe
    greenpool = _GreenPoolMod
    greenthread = _GreenThreadMod
    event = _EventMod

    def sleep(self, seconds=0):
        s, t, p = facade.ctx()
        if seconds <= 0:
            # sleep(0) = "let every green thread that is ready run until it blocks": the hub fires the timers scheduled before ours
            s.block(lambda: all(x.state != "runnable" for x in p.tasks if x is not t and x.greenlet), None, True, False)
        else:
            s.block(lambda: False, seconds, True, False)
        s.tick()

    def spawn(self, fn, *args, **kw):
        s, t, p = facade.ctx()
        return GreenThread(s, p, fn, args, kw, "%s.g%d" % (p.name, len(p.tasks)))

    def monkey_patch(self, **kw):
        pass

    def __getattr__(self, name):
        raise facade.SeamLeak("eventlet.%s is not modelled by the shim" % name)


class FakeHubs:
    def use_hub(self, *a):
        pass


class _GreenletMod:
    GreenletExit = GreenletExit


def install(seams_mod):
    """Patch gunicorn.workers.geventlet's namespace (idempotent)."""
    import warnings
    with warnings.catch_warnings():
        warnings.simplefilter("ignore")
        import gunicorn.workers.geventlet as ge
    if getattr(ge, "_sim_shim", False):
        return ge
    ge.eventlet = FakeEventlet()
    ge.hubs = FakeHubs()
    ge.greenthread = _GreenThreadMod
    ge.GreenSocket = GreenSocket
    ge.greenlet = _GreenletMod
    ge.EVENTLET_WSGI_LOCAL = None
    ge.EVENTLET_ALREADY_HANDLED = object()
    ge._sim_shim = True
    return ge
