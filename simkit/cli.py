"""bin/check entry: puts /repo (the current working tree) first on sys.path and dispatches."""
import argparse
import os
import sys

ROOT = os.environ.get("GV_ROOT") or os.path.dirname(os.path.dirname(os.path.abspath(__file__)))
REPO = os.environ.get("GV_REPO", "/repo")
# the directory of this script is sys.path[0]; replace it so 'simkit.cli' is never loaded twice
sys.path[0:1] = [REPO, ROOT]
os.environ.setdefault("GUNICORN_VERIF", "1")   # reserved guard name; no source line reads it today


def main(argv=None):
    ap = argparse.ArgumentParser()
    ap.add_argument("id")
    ap.add_argument("--tier", default=os.environ.get("VERIF_TIER", "quick"), choices=["quick", "thorough"])
    ap.add_argument("--replay")
    ap.add_argument("--runs", type=int)
    ap.add_argument("--budget", type=float)
    ap.add_argument("--jobs", type=int)
    ap.add_argument("--digests")
    ap.add_argument("--one", type=int)
    a = ap.parse_args(argv)
    seed = int(os.environ.get("VERIF_SEED", "0") or 0)

    import gunicorn
    if not os.path.abspath(gunicorn.__file__).startswith(os.path.abspath(REPO) + os.sep):
        print("HARNESS-ERROR gunicorn imported from %s, not from %s" % (gunicorn.__file__, REPO))
        return 2
    import importlib
    from simkit import runner
    mod = importlib.import_module("checks." + a.id.lower())
    if a.replay:
        return runner.replay_file(mod, a.replay)
    if a.digests:
        s, c = a.digests.split(":")
        return runner.digests_only(mod, a.tier, seed, int(s), int(c))
    if a.one is not None:
        return runner.run_one(mod, a.tier, seed, a.one)
    return runner.main_check(mod, a.tier, seed, runs=a.runs, budget=a.budget, jobs=a.jobs)


if __name__ == "__main__":
    sys.stdout.reconfigure(line_buffering=True)
    sys.exit(main())
