"""simkit.preempt — pre-emption / signal-delivery points inside pure Python code (DESIGN §2.4).

With sys.monitoring (PEP 669, CPython 3.12) the code objects of gunicorn's arbiter and worker loops report the places where
CPython itself checks the eval breaker: function entry (PY_START / PY_RESUME), backward jumps (JUMP with target < source) and
return from C calls (C_RETURN / C_RAISE).  (Backward jumps are acted upon at the LINE event of the loop header, see _on_jump.)  Each such event is a *tick* of the current simulated thread: pending signals are
delivered there, seeded forced pre-emptions and the fine-grained interleaving mode may switch threads there, and tick hooks (signal
injection at a seeded index) count them.  Only feasible points are used, so every explored interleaving is one CPython can produce.

An exception raised by a signal handler inside the callback propagates into the monitored frame, and monitoring stays armed.
The callbacks are process-global; they act only while the active simulation has `py_ticks` set.
"""
import sys
import types

from simkit import facade
from simkit.kernel import current_task

TOOL = 3
_state = {"enabled": False, "codes": 0}


def _point():
    t = current_task()
    if t is None:
        return
    s = t.sim
    if not s.py_ticks or s is not facade.SIM["sim"]:
        return
    if t.in_py_tick:
        return
    t.in_py_tick = True
    try:
        s.probes["py_level_tick"] = s.probes.get("py_level_tick", 0) + 1
        s.tick("py")
    finally:
        t.in_py_tick = False


def _on_start(code, offset):
    _point()


def _on_jump(code, src, dst):
    # CPython 3.12 does not look up the handlers of the current frame for an exception raised out of a JUMP callback (it goes straight to
    # the caller - checked in isolation), which no real signal handler can do.  So the backward jump is only noted here and the tick itself
    # happens at the LINE event of the loop header that follows it, where an exception raised by a handler propagates normally.
    if dst < src:
        t = current_task()
        if t is not None:
            t.jump_pending = True


def _on_line(code, line):
    t = current_task()
    if t is not None and getattr(t, "jump_pending", False):
        t.jump_pending = False
        _point()


def _on_cret(code, offset, callable_, arg0):
    _point()


def _codes_of(obj, seen):
    out = []
    for v in vars(obj).values():
        fn = getattr(v, "__func__", v)
        code = getattr(fn, "__code__", None)
        if isinstance(code, types.CodeType):
            stack = [code]
            while stack:
                c = stack.pop()
                if id(c) in seen:
                    continue
                seen.add(id(c))
                out.append(c)
                stack.extend(k for k in c.co_consts if isinstance(k, types.CodeType))
    return out


def enable():
    """Arm the monitoring events on the arbiter and worker-loop code objects (idempotent)."""
    if _state["enabled"]:
        return _state["codes"]
    mon = sys.monitoring
    E = mon.events
    if mon.get_tool(TOOL) is None:
        mon.use_tool_id(TOOL, "simkit")
    mon.register_callback(TOOL, E.PY_START, _on_start)
    mon.register_callback(TOOL, E.PY_RESUME, _on_start)
    mon.register_callback(TOOL, E.JUMP, _on_jump)
    mon.register_callback(TOOL, E.LINE, _on_line)
    mon.register_callback(TOOL, E.C_RETURN, _on_cret)
    mon.register_callback(TOOL, E.C_RAISE, _on_cret)
    import gunicorn.arbiter
    import gunicorn.workers.base
    import gunicorn.workers.sync
    import gunicorn.workers.gthread
    seen = set()
    codes = []
    for cls in (gunicorn.arbiter.Arbiter, gunicorn.workers.base.Worker, gunicorn.workers.sync.SyncWorker,
                gunicorn.workers.gthread.ThreadWorker, gunicorn.workers.gthread.TConn):
        codes += _codes_of(cls, seen)
    for c in codes:
        mon.set_local_events(TOOL, c, E.PY_START | E.PY_RESUME | E.JUMP | E.LINE | E.CALL)
    _state["enabled"] = True
    _state["codes"] = len(codes)
    return len(codes)
