"""simkit.facade — stand-ins for os / signal / select / time / socket / fcntl / tempfile / pwd / selectors /
concurrent.futures / RLock as gunicorn's modules see them.  Every effectful name is implemented on the simulated
kernel or raises SeamLeak; constants and pure helpers fall through to the real module.
"""
import collections
import errno
import io
import os as _os
import signal as _signal
import socket as _socket
import stat as _stat
import select as _select
import fcntl as _fcntl

from simkit.core import HarnessError, SeamLeak
from simkit.kernel import (SimKilled, _ExecReplace, current_task, Inode, Pipe, Listener, Stream, OFD, FdEntry,
                           SIG_DFL, SIG_IGN, SIGNAMES)

SIM = {"sim": None}


def sim():
    s = SIM["sim"]
    if s is None:
        raise HarnessError("no active simulation")
    return s


def ctx():
    s = sim()
    t = current_task()
    if t is None or t.sim is not s:
        raise HarnessError("simulated system call from outside a simulated task")
    if t.killed or t.proc.state != "running":
        raise SimKilled()
    return s, t, t.proc


def _fd_of(x):
    return x if isinstance(x, int) else x.fileno()


def _sysfail(s, p, op):
    if s.sys_fail is not None:
        code = s.sys_fail(p, op)
        if code:
            s.fault("sys:%s:%s" % (op, errno.errorcode.get(code, code)))
            raise OSError(code, "%s (injected)" % _os.strerror(code))


# ================================================================================================= os
class EnvironProxy(collections.abc.MutableMapping):
    def _d(self):
        return ctx()[2].environ

    def __getitem__(self, k):
        return self._d()[k]

    def __setitem__(self, k, v):
        self._d()[k] = v

    def __delitem__(self, k):
        del self._d()[k]

    def __iter__(self):
        return iter(self._d())

    def __len__(self):
        return len(self._d())

    def copy(self):
        return dict(self._d())


class FakePath:
    def __getattr__(self, name):
        if name in ("dirname", "basename", "join", "normpath", "split", "splitext", "isabs", "abspath_pure", "sep"):
            return getattr(_os.path, name)
        raise SeamLeak("os.path.%s is not modelled" % name)

    def isdir(self, path):
        s, t, p = ctx()
        n = s.fs.get(s.norm(p, path))
        return n is not None and n.kind == "dir"

    def exists(self, path):
        s, t, p = ctx()
        return s.norm(p, path) in s.fs

    def abspath(self, path):
        s, t, p = ctx()
        return s.norm(p, path)


class SimFileHandle:
    """What os.fdopen() returns: a stateless handle on a descriptor number of the *calling* process."""

    def __init__(self, fd, ofd):
        self.fd = fd
        self.ofd = ofd

    def fileno(self):
        t = current_task()
        if t is not None:
            e = t.proc.fds.get(self.fd)
            if e is None or e.ofd is not self.ofd:
                # like a Python file object after close()
                raise ValueError("I/O operation on closed file")
        return self.fd

    def close(self):
        s, t, p = ctx()
        e = p.fds.get(self.fd)
        if e is not None and e.ofd is self.ofd:
            s.close(p, self.fd)
        s.tick()

    def __deepcopy__(self, memo):
        return self

    def __enter__(self):
        return self

    def __exit__(self, *a):
        self.close()


class FakeOS:
    WNOHANG = _os.WNOHANG
    SEEK_SET, SEEK_CUR, SEEK_END = _os.SEEK_SET, _os.SEEK_CUR, _os.SEEK_END
    O_NONBLOCK = _os.O_NONBLOCK
    O_RDWR = _os.O_RDWR
    O_RDONLY, O_WRONLY, O_CREAT, O_EXCL, O_TRUNC, O_APPEND = _os.O_RDONLY, _os.O_WRONLY, _os.O_CREAT, _os.O_EXCL, _os.O_TRUNC, _os.O_APPEND
    O_CLOEXEC, O_NOFOLLOW = _os.O_CLOEXEC, _os.O_NOFOLLOW
    devnull = _os.devnull
    error = OSError
    sep = _os.sep
    linesep = _os.linesep
    name = _os.name
    strerror = staticmethod(_os.strerror)
    fsencode = staticmethod(_os.fsencode)
    fsdecode = staticmethod(_os.fsdecode)
    stat_result = _os.stat_result

    def __init__(self):
        self.environ = EnvironProxy()
        self.path = FakePath()

    def __getattr__(self, name):
        raise SeamLeak("os.%s used by gunicorn is not modelled by the simulated kernel" % name)

    # -- identity
    def getpid(self):
        s, t, p = ctx()
        if getattr(t, "fork_zero", False):
            # fork re-entry: code that the parent executed *before* fork() is being re-executed by the child's
            # thread; until fork() returns 0 it must see what the parent saw
            return p.ppid
        return p.pid

    def getppid(self):
        return ctx()[2].ppid

    def getuid(self):
        return ctx()[2].ruid

    def geteuid(self):
        return ctx()[2].euid

    def getgid(self):
        return ctx()[2].rgid

    def getegid(self):
        return ctx()[2].egid

    def getgroups(self):
        return list(ctx()[2].groups)

    def setgid(self, gid):
        s, t, p = ctx()
        _sysfail(s, p, "setgid")
        if p.euid == 0:
            p.rgid = p.egid = p.sgid = gid
        elif gid in (p.rgid, p.sgid):
            p.egid = gid
        else:
            raise PermissionError(errno.EPERM, "Operation not permitted")
        s.ev(p.name, "setgid", gid)
        s.tick()

    def setuid(self, uid):
        s, t, p = ctx()
        _sysfail(s, p, "setuid")
        if p.euid == 0:
            p.ruid = p.euid = p.suid = uid
        elif uid in (p.ruid, p.suid):
            p.euid = uid
        else:
            raise PermissionError(errno.EPERM, "Operation not permitted")
        s.ev(p.name, "setuid", uid)
        s.tick()

    def setgroups(self, groups):
        s, t, p = ctx()
        _sysfail(s, p, "initgroups")
        if p.euid != 0:
            raise PermissionError(errno.EPERM, "Operation not permitted")
        p.groups = sorted(set(int(g) for g in groups))
        s.ev(p.name, "setgroups", list(p.groups))
        s.tick()

    def initgroups(self, username, gid):
        s, t, p = ctx()
        _sysfail(s, p, "initgroups")
        if p.euid != 0:
            raise PermissionError(errno.EPERM, "Operation not permitted")
        groups = None
        for uid, (name, pgid, grps) in s.passwd.items():
            if name == username:
                groups = list(grps)
        if groups is None:
            groups = []
        if gid not in groups:
            groups.append(gid)
        p.groups = sorted(groups)      # POSIX: the supplementary list only; primary gid is untouched
        s.ev(p.name, "initgroups", (username, gid))
        s.tick()

    def umask(self, m):
        s, t, p = ctx()
        old, p.umask = p.umask, m
        return old

    def getcwd(self):
        return ctx()[2].cwd

    def chdir(self, path):
        s, t, p = ctx()
        p.cwd = s.norm(p, path)
        s.tick()

    def urandom(self, n):
        s = sim()
        s.urandom_n += 1
        return bytes((s.urandom_n * 31 + i * 7) & 0xFF for i in range(n))

    # -- processes
    def fork(self):
        s, t, p = ctx()
        if getattr(t, "fork_zero", False):
            t.fork_zero = False
            return 0
        _sysfail(s, p, "fork")
        child = s.fork_proc(p, "%s/c" % (p.name.split("/")[0],))
        fn = s.on_fork(p, child, t)
        ct = s.new_task(child, fn, child.name, True)
        ct.fork_zero = True
        s.ev(p.name, "fork", child.pid)
        if s.buggify.get("fork_child_first") and s.choices.coin(1, 3, "fork-child-first"):
            s.fault("fork_child_runs_first")
            s.yield_now()
        s.tick()
        return child.pid

    def execvpe(self, file, args, env):
        s, t, p = ctx()
        _sysfail(s, p, "execvpe")        # e.g. ENOENT: the binary was moved or removed under the running server
        prog = s.programs.get(file)
        if prog is None:
            raise FileNotFoundError(errno.ENOENT, "no simulated program registered for %r" % (file,))
        p.environ = dict(env)
        for fd in sorted(p.fds):
            if p.fds[fd].cloexec:
                s.close(p, fd)
        p.handlers = {k: v for k, v in p.handlers.items() if v is SIG_IGN}
        p.sigint_flag = {}
        p.wakeup_fd = -1
        p.name = p.name + "!exec"
        s.ev(p.name, "exec", file)
        raise _ExecReplace(prog, list(args), dict(env))

    def kill(self, pid, sig):
        s, t, p = ctx()
        code = None
        if s.sys_fail is not None:
            code = s.sys_fail(p, "kill")
        if code:
            raise OSError(code, _os.strerror(code))
        s.kill(pid, int(sig), sender=p.name, sender_proc=p)
        s.tick()

    def waitpid(self, pid, options):
        s, t, p = ctx()
        if not options & _os.WNOHANG:
            raise SeamLeak("blocking waitpid is not modelled")
        kids = [c for c in s.procs.values() if c.ppid == p.pid and c.state in ("running", "zombie")
                and (pid == -1 or c.pid == pid)]
        if not kids:
            s.tick()
            raise ChildProcessError(errno.ECHILD, "No child processes")
        z = [c for c in kids if c.state == "zombie"]
        if not z:
            s.tick()
            return (0, 0)
        c = z[0]
        c.state = "gone"
        s.ev(p.name, "reap", (c.pid, c.status))
        s.tick()
        return (c.pid, c.status)

    def _exit(self, code):
        raise SystemExit(code)

    def abort(self):
        s, t, p = ctx()
        s._terminate(p, int(_signal.SIGABRT))
        raise SimKilled()

    # -- descriptors
    def pipe(self):
        s, t, p = ctx()
        pp = Pipe()
        r = s.alloc_fd(p, OFD("pipe_r", pp))
        w = s.alloc_fd(p, OFD("pipe_w", pp))
        s.tick()
        return (r, w)

    def close(self, fd):
        s, t, p = ctx()
        s.close(p, _fd_of(fd))
        s.tick()

    def set_inheritable(self, fd, flag):
        s, t, p = ctx()
        s.entry(p, fd).cloexec = not flag

    def read(self, fd, n):
        s, t, p = ctx()
        e = s.entry(p, fd)
        o = e.ofd
        if o.kind == "pipe_r":
            pp = o.obj
            if not pp.buf and pp.writers > 0:
                if o.nonblock:
                    s.tick()
                    raise BlockingIOError(errno.EAGAIN, "Resource temporarily unavailable")
                s.block(lambda: bool(pp.buf) or pp.writers == 0, None, True, True)
            out = bytes(pp.buf[:n])
            del pp.buf[:n]
            s.tick()
            return out
        if o.kind == "file":
            data = o.obj.data
            out = bytes(data[o.offset:o.offset + n])
            o.offset += len(out)
            s.tick()
            return out
        raise SeamLeak("os.read on a %s descriptor" % o.kind)

    def write(self, fd, data):
        s, t, p = ctx()
        e = s.entry(p, fd)
        o = e.ofd
        if o.kind == "pipe_w":
            pp = o.obj
            if pp.readers == 0:
                _sigpipe(s, p)
                raise BrokenPipeError(errno.EPIPE, "Broken pipe")
            if len(pp.buf) + len(data) > pp.cap:
                if o.nonblock:
                    s.tick()
                    raise BlockingIOError(errno.EAGAIN, "Resource temporarily unavailable")
                s.block(lambda: len(pp.buf) + len(data) <= pp.cap, None, True, True)
            pp.buf += data
            s.tick()
            return len(data)
        if o.kind == "file":
            s.fs_check("write", getattr(o.obj, "path", "?"))
            n = len(data)
            short = s.short_write(p, n) if s.short_write is not None else n
            d = o.obj.data
            if getattr(o, "append", False):
                o.offset = len(d)
            d[o.offset:o.offset + short] = data[:short]
            o.offset += short
            o.obj.mtime = s.now
            s.ev(p.name, "write", (getattr(o.obj, "path", "?"), short))
            s.tick()
            return short
        raise SeamLeak("os.write on a %s descriptor" % o.kind)

    def open(self, path, flags, mode=0o777, *, dir_fd=None):
        """open(2) on the simulated file system: O_CREAT / O_EXCL / O_TRUNC / O_APPEND / access mode; returns a descriptor."""
        s, t, p = ctx()
        s.fs_check("open", path)
        full = s.norm(p, path)
        n = s.fs.get(full)
        if n is None:
            if not flags & _os.O_CREAT:
                raise FileNotFoundError(errno.ENOENT, "No such file or directory", path)
            d = full.rsplit("/", 1)[0] or "/"
            dn = s.fs.get(d)
            if dn is None or dn.kind != "dir":
                raise FileNotFoundError(errno.ENOENT, "No such file or directory", path)
            n = Inode("file", mode & 0o7777 & ~p.umask, p.euid, p.egid)
            n.path = full
            n.mtime = s.epoch + s.now
            s.fs[full] = n
        else:
            if flags & _os.O_CREAT and flags & _os.O_EXCL:
                raise FileExistsError(errno.EEXIST, "File exists", path)
            if n.kind == "dir":
                raise IsADirectoryError(errno.EISDIR, "Is a directory", path)
            if n.kind != "file":
                raise OSError(errno.ENXIO, "No such device or address", path)
            if flags & _os.O_TRUNC and (flags & (_os.O_WRONLY | _os.O_RDWR)):
                del n.data[:]
        o = OFD("file", n)
        o.append = bool(flags & _os.O_APPEND)
        fd = s.alloc_fd(p, o, cloexec=True, lowest=3)
        s.ev(p.name, "open", (full, flags & (_os.O_CREAT | _os.O_EXCL | _os.O_TRUNC)))
        s.tick()
        return fd

    def lseek(self, fd, pos, how):
        s, t, p = ctx()
        o = s.entry(p, fd).ofd
        if o.kind != "file":
            raise OSError(errno.ESPIPE, "Illegal seek")
        if how == _os.SEEK_SET:
            o.offset = pos
        elif how == _os.SEEK_CUR:
            o.offset += pos
        else:
            o.offset = len(o.obj.data) + pos
        return o.offset

    def fdopen(self, fd, mode="r", buffering=-1):
        s, t, p = ctx()
        return SimFileHandle(fd, s.entry(p, fd).ofd)

    # -- file system
    def _st(self, n):
        kind = {"file": _stat.S_IFREG, "dir": _stat.S_IFDIR, "sock": _stat.S_IFSOCK}[n.kind]
        return _os.stat_result((kind | n.mode, id(n) & 0xFFFFFF, 1, n.nlink, n.uid, n.gid, len(n.data),
                                n.mtime, n.mtime, n.mtime))

    def stat(self, path):
        s, t, p = ctx()
        if isinstance(path, int):
            return self.fstat(path)
        s.fs_check("stat", path)
        return self._st(s.lookup(p, path))

    def fstat(self, fd):
        s, t, p = ctx()
        o = s.entry(p, fd).ofd
        if o.kind != "file":
            raise SeamLeak("fstat on a %s descriptor" % o.kind)
        s.tick()
        return self._st(o.obj)

    def utime(self, target, times=None):
        s, t, p = ctx()
        if isinstance(target, int):
            n = s.entry(p, target).ofd.obj
        else:
            n = s.lookup(p, target)
        if p.euid != 0 and getattr(n, "uid", p.euid) != p.euid:
            # POSIX: setting explicit times needs ownership (or privilege); 'now' would also be allowed with write access
            if times is not None or not (getattr(n, "mode", 0o666) & 0o002):
                s.ev(p.name, "utime-eperm", (getattr(n, "uid", None), p.euid))
                raise PermissionError(errno.EPERM, "Operation not permitted")
        n.mtime = times[1] if times is not None else s.now
        s.ev(p.name, "utime", round(n.mtime, 3))
        s.tick()

    def unlink(self, path):
        s, t, p = ctx()
        s.fs_check("unlink", path)
        path = s.norm(p, path)
        n = s.fs.get(path)
        if n is None:
            raise FileNotFoundError(errno.ENOENT, "No such file or directory", path)
        if n.kind == "dir":
            raise IsADirectoryError(errno.EISDIR, "Is a directory", path)
        del s.fs[path]
        n.nlink -= 1
        s.ev(p.name, "unlink", path)
        s.tick()

    remove = unlink

    def rename(self, src, dst):
        s, t, p = ctx()
        s.fs_check("rename", dst)
        a, b = s.norm(p, src), s.norm(p, dst)
        if a not in s.fs:
            raise FileNotFoundError(errno.ENOENT, "No such file or directory", a)
        n = s.fs.pop(a)
        old = s.fs.get(b)
        if old is not None:
            old.nlink -= 1
        s.fs[b] = n
        n.path = b
        s.ev(p.name, "rename", (a, b))
        s.tick()

    def chmod(self, path, mode):
        s, t, p = ctx()
        s.fs_check("chmod", path)
        s.lookup(p, path).mode = mode & 0o7777
        s.ev(p.name, "chmod", (s.norm(p, path), oct(mode)))
        s.tick()

    def fchown(self, fd, uid, gid):
        s, t, p = ctx()
        _sysfail(s, p, "chown")
        o = s.entry(p, fd).ofd
        if p.euid != 0:
            raise PermissionError(errno.EPERM, "Operation not permitted")
        if o.kind == "file":
            if uid != -1:
                o.obj.uid = uid
            if gid != -1:
                o.obj.gid = gid
        else:
            # Linux: fchown() on a socket descriptor changes the anonymous sockfs inode, never the file-system node a
            # unix socket is bound to
            o.sock_owner = (uid, gid)
        s.ev(p.name, "fchown", (fd, uid, gid))
        s.tick()

    def chown(self, path, uid, gid):
        s, t, p = ctx()
        _sysfail(s, p, "chown")
        n = s.lookup(p, path)
        if p.euid != 0 and (uid not in (-1, n.uid) or gid not in [-1] + p.groups + [p.egid]):
            raise PermissionError(errno.EPERM, "Operation not permitted", path)
        if uid != -1:
            n.uid = uid
        if gid != -1:
            n.gid = gid
        s.ev(p.name, "chown", (s.norm(p, path), uid, gid))
        s.tick()


def fake_open(path, mode="r", *a, **kw):
    """Module-level `open` for gunicorn.pidfile: read-only text access to the simulated file system."""
    s, t, p = ctx()
    if any(c in mode for c in "wa+x"):
        raise SeamLeak("open(%r, %r) for writing is not modelled" % (path, mode))
    s.fs_check("open", path)
    n = s.lookup(p, path)
    if n.kind == "dir":
        raise IsADirectoryError(errno.EISDIR, "Is a directory", path)
    s.tick()
    data = bytes(n.data)
    return io.BytesIO(data) if "b" in mode else io.StringIO(data.decode("utf-8", "replace"))


class FakeTempfile:
    def mkstemp(self, suffix="", prefix="tmp", dir=None):
        s, t, p = ctx()
        d = s.norm(p, dir or "/tmp")
        s.fs_check("mkstemp", d)
        dn = s.fs.get(d)
        if dn is None or dn.kind != "dir":
            raise FileNotFoundError(errno.ENOENT, "No such file or directory", d)
        s.mkstemp_n += 1
        path = "%s/%s%06d%s" % (d.rstrip("/"), prefix, s.mkstemp_n, suffix)
        n = Inode("file", 0o600, p.euid, p.egid)
        n.path = path
        n.mtime = s.epoch + s.now        # a new file carries the wall-clock time
        s.fs[path] = n
        fd = s.alloc_fd(p, OFD("file", n), cloexec=True, lowest=3)
        s.ev(p.name, "mkstemp", path)
        s.tick()
        return fd, path

    def __getattr__(self, name):
        raise SeamLeak("tempfile.%s is not modelled" % name)


class FakePwd:
    class _Ent:
        def __init__(self, name, uid, gid):
            self.pw_name, self.pw_uid, self.pw_gid = name, uid, gid

    def getpwuid(self, uid):
        e = sim().passwd.get(uid)
        if e is None:
            raise KeyError("getpwuid(): uid not found: %r" % uid)
        return self._Ent(e[0], uid, e[1])

    def __getattr__(self, name):
        raise SeamLeak("pwd.%s is not modelled" % name)


class FakeFcntl:
    F_GETFD, F_SETFD, F_GETFL, F_SETFL, FD_CLOEXEC = (_fcntl.F_GETFD, _fcntl.F_SETFD, _fcntl.F_GETFL, _fcntl.F_SETFL,
                                                      _fcntl.FD_CLOEXEC)

    def fcntl(self, fd, cmd, arg=0):
        s, t, p = ctx()
        e = s.entry(p, _fd_of(fd))
        if cmd == _fcntl.F_GETFD:
            return _fcntl.FD_CLOEXEC if e.cloexec else 0
        if cmd == _fcntl.F_SETFD:
            e.cloexec = bool(arg & _fcntl.FD_CLOEXEC)
            return 0
        if cmd == _fcntl.F_GETFL:
            return _os.O_NONBLOCK if e.ofd.nonblock else 0
        if cmd == _fcntl.F_SETFL:
            e.ofd.nonblock = bool(arg & _os.O_NONBLOCK)
            return 0
        raise SeamLeak("fcntl command %r is not modelled" % cmd)

    def __getattr__(self, name):
        raise SeamLeak("fcntl.%s is not modelled" % name)


# ================================================================================================= signal / time / select
def _sigpipe(s, p):
    """EPIPE comes with SIGPIPE.  The interpreter ignores it from its start (and every simulated process is a Python process), so it only
    matters to a process that has installed something else - the default action, for one, which ends it."""
    h = p.handlers.get(int(_signal.SIGPIPE), SIG_IGN)
    if h is not SIG_IGN:
        s.kill(p.pid, int(_signal.SIGPIPE), sender=p.name)
        s.tick()


class FakeSignal:
    SIG_DFL, SIG_IGN = SIG_DFL, SIG_IGN
    Signals = _signal.Signals

    def __init__(self):
        for n in dir(_signal):
            if n.startswith("SIG") and not n.startswith("SIG_"):
                setattr(self, n, getattr(_signal, n))

    def __getattr__(self, name):
        raise SeamLeak("signal.%s is not modelled" % name)

    def signal(self, sig, handler):
        s, t, p = ctx()
        sig = int(sig)
        old = p.handlers.get(sig, SIG_DFL)
        p.handlers[sig] = handler
        p.sigint_flag[sig] = True      # signal.signal() implies siginterrupt(sig, True)
        return old

    def getsignal(self, sig):
        return ctx()[2].handlers.get(int(sig), SIG_DFL)

    SIG_BLOCK, SIG_UNBLOCK, SIG_SETMASK = _signal.SIG_BLOCK, _signal.SIG_UNBLOCK, _signal.SIG_SETMASK

    def pthread_sigmask(self, how, mask):
        s, t, p = ctx()
        old = set(p.blocked)
        m = {int(x) for x in mask} - {int(_signal.SIGKILL), int(_signal.SIGSTOP)}
        if how == _signal.SIG_BLOCK:
            p.blocked |= m
        elif how == _signal.SIG_UNBLOCK:
            p.blocked -= m
        elif how == _signal.SIG_SETMASK:
            p.blocked = m
        else:
            raise ValueError("invalid how")
        s.tick()                 # a signal that was held back is delivered before the call returns
        return {_signal.Signals(x) for x in old}

    def siginterrupt(self, sig, flag):
        s, t, p = ctx()
        p.sigint_flag[int(sig)] = bool(flag)

    def set_wakeup_fd(self, fd):
        s, t, p = ctx()
        old, p.wakeup_fd = p.wakeup_fd, fd
        return old


class FakeTime:
    def __getattr__(self, name):
        import time as _t
        if name in ("gmtime", "struct_time", "timezone", "altzone", "daylight", "tzname", "localtime", "mktime"):
            return getattr(_t, name)
        raise SeamLeak("time.%s is not modelled" % name)

    def time(self):
        s = sim()
        t = current_task()
        off = getattr(t.proc, "wall_offset", 0.0) if t is not None else 0.0
        if t is not None:
            s.tick()
        return s.epoch + s.now + off

    def monotonic(self):
        s = sim()
        if current_task() is not None:
            s.tick()
        return 1000.0 + s.now

    def sleep(self, secs):
        s, t, p = ctx()
        s.block(lambda: False, secs, True, False)
        s.tick()

    def strftime(self, fmt, tt=None):
        import time as _t
        return _t.strftime(fmt, _t.gmtime(sim().epoch + sim().now) if tt is None else tt)


def _readable(s, p, fd):
    e = p.fds.get(fd)
    if e is None:
        raise OSError(errno.EBADF, "Bad file descriptor")
    o = e.ofd
    if o.kind == "pipe_r":
        return bool(o.obj.buf) or o.obj.writers == 0
    if o.kind == "listen":
        return bool(o.obj.queue)
    if o.kind == "stream":
        st = o.obj
        return bool(st.rbuf) or st.eof or st.rst
    if o.kind == "file":
        return True
    return False


class FakeSelect:
    error = OSError

    def __getattr__(self, name):
        raise SeamLeak("select.%s is not modelled" % name)

    def select(self, rlist, wlist, xlist, timeout=None):
        s, t, p = ctx()
        if wlist or xlist:
            raise SeamLeak("select() with write/except sets is not modelled")
        items = [(x, _fd_of(x)) for x in rlist]
        for x, fd in items:
            if fd < 0 or fd not in p.fds:
                s.tick()
                raise OSError(errno.EBADF, "Bad file descriptor")

        def ready():
            return [x for x, fd in items if fd in p.fds and _readable(s, p, fd)]
        if s.buggify.get("spurious_select") and s.choices.coin(1, 12, "spurious-select"):
            s.fault("select_spurious_return")
            s.tick()
            return (ready(), [], [])
        s.block(lambda: bool(ready()) or any(fd not in p.fds for _, fd in items), timeout, True, False)
        for x, fd in items:
            if fd not in p.fds:
                raise OSError(errno.EBADF, "Bad file descriptor")
        out = ready()
        s.tick()
        return (out, [], [])


# ================================================================================================= sockets
class SimSocket:
    """Handle on a socket descriptor of the calling process (stateless apart from (fd, ofd))."""

    def __init__(self, fd, ofd, family):
        self.fd, self.ofd, self.family = fd, ofd, family
        self.type = _socket.SOCK_STREAM
        self._timeout = None

    def __deepcopy__(self, memo):
        c = SimSocket(self.fd, self.ofd, self.family)
        c._timeout = self._timeout
        return c

    def _live(self, p):
        e = p.fds.get(self.fd)
        return e is not None and e.ofd is self.ofd

    def _o(self):
        s, t, p = ctx()
        if not self._live(p):
            raise OSError(errno.EBADF, "Bad file descriptor")
        return s, t, p, self.ofd

    def fileno(self):
        t = current_task()
        if t is None or not self._live(t.proc):
            return -1
        return self.fd

    def close(self):
        s, t, p = ctx()
        if self._live(p):
            s.close(p, self.fd)
            s.ev(p.name, "sock-close", self.fd)
        s.tick()

    def detach(self):
        # hand the descriptor number over (gevent's patch() re-wraps it); the descriptor itself stays open
        s, t, p, o = self._o()
        return self.fd

    def setsockopt(self, *a):
        self._o()

    def set_inheritable(self, flag):
        s, t, p, o = self._o()
        p.fds[self.fd].cloexec = not flag

    def get_inheritable(self):
        s, t, p, o = self._o()
        return not p.fds[self.fd].cloexec

    def setblocking(self, flag):
        s, t, p, o = self._o()
        o.nonblock = not flag
        self._timeout = None if flag else 0.0

    def settimeout(self, v):
        s, t, p, o = self._o()
        o.nonblock = (v == 0 or v == 0.0) and v is not None
        self._timeout = v

    def gettimeout(self):
        s, t, p, o = self._o()
        return 0.0 if o.nonblock else None

    def bind(self, addr):
        s, t, p, o = self._o()
        l = o.obj
        if self.family == _socket.AF_UNIX:
            path = s.norm(p, addr)
            s.fs_check("bind", path)
            if path in s.fs:
                raise OSError(errno.EADDRINUSE, "Address already in use")
            n = Inode("sock", 0o777 & ~p.umask, p.euid, p.egid)
            n.listener = l
            n.path = path
            s.fs[path] = n
            l.addr = addr
        else:
            host, port = addr[0], addr[1]
            if host == "localhost":
                host = "127.0.0.1" if self.family == _socket.AF_INET else "::1"      # the kernel only knows numeric addresses
            if port == 0:
                s.port_seq += 1
                port = s.port_seq
            key = (host, port)
            ex = s.listeners.get(key)
            if ex is not None and ex.open:
                raise OSError(errno.EADDRINUSE, "Address already in use")
            s.listeners[key] = l
            l.addr = (host, port) if self.family == _socket.AF_INET else (host, port, 0, 0)
        s.ev(p.name, "bind", repr(addr))
        s.tick()

    def listen(self, backlog=128):
        s, t, p, o = self._o()
        o.kind = "listen"
        o.obj.listening = True
        s.tick()

    def getsockname(self):
        s, t, p, o = self._o()
        if o.kind in ("listen", "sockraw"):
            return o.obj.addr
        return o.obj.local

    def getpeername(self):
        s, t, p, o = self._o()
        if o.kind != "stream":
            raise OSError(errno.ENOTCONN, "Transport endpoint is not connected")
        return o.obj.remote

    def accept(self):
        s, t, p, o = self._o()
        if o.kind != "listen":
            raise OSError(errno.EINVAL, "Invalid argument")
        l = o.obj
        code = s.sys_fail(p, "accept") if s.sys_fail is not None else None
        if code:
            s.fault("sys:accept:%s" % errno.errorcode.get(code, code))
            s.tick()
            raise OSError(code, _os.strerror(code))
        if l.queue and o.nonblock and s.buggify.get("accept_eagain") and s.choices.coin(1, 5, "accept-eagain"):
            # a sibling process sharing the listener took the connection first (it is served elsewhere)
            s.fault("accept_lost_race_eagain")
            stolen = l.queue.pop(0)
            s.stolen.append(stolen)
            stolen.closed = True              # the sibling is outside the simulation: its client simply sees the connection end
            if stolen.peer is not None:
                stolen.peer.eof = True
            s.tick()
            raise BlockingIOError(errno.EAGAIN, "Resource temporarily unavailable")
        if l.queue and s.buggify.get("accept_econnaborted") and s.choices.coin(1, 6, "accept-econnaborted"):
            # the client reset the connection while it was waiting in the accept queue: accept() fails with ECONNABORTED and the
            # connection is gone (the client, if it is still there, sees a reset)
            s.fault("accept_econnaborted")
            gone = l.queue.pop(0)
            s.stolen.append(gone)
            gone.closed = True
            if gone.peer is not None:
                gone.peer.rst = True
                gone.peer.eof = True
            s.tick()
            raise ConnectionAbortedError(errno.ECONNABORTED, "Software caused connection abort")
        if not l.queue:
            if o.nonblock:
                s.tick()
                raise BlockingIOError(errno.EAGAIN, "Resource temporarily unavailable")
            s.block(lambda: bool(l.queue), None, True, True)
        st = l.queue.pop(0)
        l.accepted += 1
        no = OFD("stream", st)
        fd = s.alloc_fd(p, no, cloexec=True, lowest=3)
        st.accepted_by = p.pid
        st.accept_time = s.now
        s.ev(p.name, "accept", (st.name, fd))
        s.tick()
        return SimSocket(fd, no, self.family), st.remote

    def recv(self, n, flags=0):
        s, t, p, o = self._o()
        st = o.obj
        if o.kind != "stream":
            raise OSError(errno.ENOTCONN, "Transport endpoint is not connected")
        if not st.rbuf and not st.eof and not st.rst:
            if o.nonblock:
                s.tick()
                raise BlockingIOError(errno.EAGAIN, "Resource temporarily unavailable")
            s.block(lambda: bool(st.rbuf) or st.eof or st.rst or not self._live(p), None, True, True)
            if not self._live(p):
                raise OSError(errno.EBADF, "Bad file descriptor")
        if st.rbuf:
            k = min(n, len(st.rbuf))
            if k > 1 and s.buggify.get("short_recv"):
                k = k - s.choices.choose(k, "short-recv")
                k = max(1, k)
            out = bytes(st.rbuf[:k])
            del st.rbuf[:k]
            st.first_read = getattr(st, "first_read", s.now)
            s.ev(p.name, "recv", (st.name, len(out)))
            s.tick()
            return out
        if st.rst:
            s.tick()
            raise ConnectionResetError(errno.ECONNRESET, "Connection reset by peer")
        s.tick()
        return b""

    def _send(self, data):
        s, t, p, o = self._o()
        st = o.obj
        if o.kind != "stream":
            raise OSError(errno.ENOTCONN, "Transport endpoint is not connected")
        if st.shut_wr:
            _sigpipe(s, p)
            raise BrokenPipeError(errno.EPIPE, "Broken pipe")
        peer = st.peer
        if st.rst:
            s.tick()
            raise ConnectionResetError(errno.ECONNRESET, "Connection reset by peer")
        if peer.closed:
            st.rst = True
            _sigpipe(s, p)
            s.tick()
            raise BrokenPipeError(errno.EPIPE, "Broken pipe")
        peer.rbuf += data
        s.ev(p.name, "send", (st.name, len(data)))
        s.tick()
        return len(data)

    def send(self, data, flags=0):
        return self._send(bytes(data))

    def sendall(self, data, flags=0):
        self._send(bytes(data))

    def sendfile(self, file, offset=0, count=None):
        raise SeamLeak("socket.sendfile is not modelled in the kernel worlds")

    def shutdown(self, how):
        s, t, p, o = self._o()
        if o.kind == "listen" and o.obj.listening:
            # Linux: shutdown() of the read side of a LISTENING socket takes it out of the listening state - for every process that
            # shares the open file description (the descriptors themselves stay valid); connection attempts are refused from then on
            if how in (_socket.SHUT_RD, _socket.SHUT_RDWR):
                o.obj.listening = False
                for st in o.obj.queue:
                    peer = getattr(st, "peer", None)
                    if peer is not None:
                        peer.rst = True
                        peer.eof = True
                del o.obj.queue[:]
                s.ev(p.name, "listener-shutdown", repr(o.obj.addr))
            s.tick()
            return
        if o.kind != "stream":
            raise OSError(errno.ENOTCONN, "Transport endpoint is not connected")
        st = o.obj
        if how in (_socket.SHUT_WR, _socket.SHUT_RDWR):
            st.shut_wr = True
            if st.peer is not None:
                st.peer.eof = True
        s.tick()


class FakeSocketModule:
    error = OSError
    timeout = _socket.timeout

    def __init__(self):
        for n in ("AF_INET", "AF_INET6", "AF_UNIX", "SOCK_STREAM", "SOCK_DGRAM", "SOL_SOCKET", "SO_REUSEADDR",
                  "IPPROTO_TCP", "TCP_NODELAY", "SHUT_RD", "SHUT_WR", "SHUT_RDWR", "SOCK_CLOEXEC"):
            setattr(self, n, getattr(_socket, n))
        # no SO_REUSEPORT attribute: hasattr(socket, 'SO_REUSEPORT') is False -> reuse_port paths stay off
        self.inet_pton = _socket.inet_pton

    def __getattr__(self, name):
        raise SeamLeak("socket.%s is not modelled" % name)

    def socket(self, family=_socket.AF_INET, type=_socket.SOCK_STREAM, proto=0):
        s, t, p = ctx()
        if type != _socket.SOCK_STREAM:
            raise SeamLeak("only stream sockets are modelled")
        o = OFD("sockraw", Listener(family))
        o.family = family
        fd = s.alloc_fd(p, o, cloexec=True, lowest=3)
        s.tick()
        return SimSocket(fd, o, family)

    def fromfd(self, fd, family, type, proto=0):
        s, t, p = ctx()
        e = s.entry(p, fd)
        nfd = s.alloc_fd(p, e.ofd, cloexec=True, lowest=3)
        fam = e.ofd.family if e.ofd.family is not None else family
        s.tick()
        return SimSocket(nfd, e.ofd, fam)


# ================================================================================================= selectors (gthread)
EVENT_READ = 1
EVENT_WRITE = 2
SelectorKey = collections.namedtuple("SelectorKey", ["fileobj", "fd", "events", "data"])


class SimSelector:
    """Mirror of selectors._BaseSelectorImpl + EpollSelector on the simulated kernel (Appendix D rules)."""

    def __init__(self):
        self._map = {}       # fd -> (key, ofd at registration)
        self.closed = False

    def _lookup(self, fileobj):
        try:
            fd = fileobj if isinstance(fileobj, int) else int(fileobj.fileno())
            if fd < 0:
                raise ValueError("Invalid file descriptor: %d" % fd)
            return fd
        except ValueError:
            for fd, (key, o) in self._map.items():
                if key.fileobj is fileobj:
                    return fd
            raise

    def register(self, fileobj, events, data=None):
        s, t, p = ctx()
        if not events or events & ~(EVENT_READ | EVENT_WRITE):
            raise ValueError("Invalid events: %r" % events)
        fd = self._lookup(fileobj)
        if fd in self._map:
            raise KeyError("%r (FD %d) is already registered" % (fileobj, fd))
        e = p.fds.get(fd)
        if e is None:
            raise OSError(errno.EBADF, "Bad file descriptor")
        key = SelectorKey(fileobj, fd, events, data)
        self._map[fd] = (key, e.ofd)
        s.ev(p.name, "sel-register", fd)
        s.tick()
        return key

    def unregister(self, fileobj):
        s, t, p = ctx()
        try:
            fd = self._lookup(fileobj)
            key, o = self._map.pop(fd)
        except KeyError:
            raise KeyError("%r is not registered" % (fileobj,)) from None
        s.ev(p.name, "sel-unregister", fd)
        s.tick()
        return key

    def get_map(self):
        return {fd: k for fd, (k, o) in self._map.items()}

    def select(self, timeout=None):
        s, t, p = ctx()

        def ready():
            out = []
            for fd in sorted(self._map):
                key, o = self._map[fd]
                e = p.fds.get(fd)
                if e is None or e.ofd is not o:
                    continue          # epoll dropped the description when its last descriptor closed
                if key.events & EVENT_READ and _readable(s, p, fd):
                    out.append((key, EVENT_READ))
            return out
        if timeout is not None and timeout <= 0:
            out = ready()
            if out:
                s.ev(p.name, "sel-ready", tuple(k.fd for k, _ in out))
            s.tick()
            return out
        s.block(lambda: bool(ready()), timeout, True, False)
        out = ready()
        if out:
            s.ev(p.name, "sel-ready", tuple(k.fd for k, _ in out))
        s.tick()
        return out

    def close(self):
        self._map.clear()
        self.closed = True


class FakeSelectors:
    EVENT_READ, EVENT_WRITE = EVENT_READ, EVENT_WRITE
    DefaultSelector = SimSelector

    def __getattr__(self, name):
        raise SeamLeak("selectors.%s is not modelled" % name)


# ================================================================================================= futures / RLock (gthread)
class CancelledError(Exception):
    pass


class SimFuture:
    def __init__(self):
        self.state = "pending"       # pending | running | cancelled | finished
        self._result = None
        self._exc = None
        self._cbs = []
        self._notified = False       # CANCELLED_AND_NOTIFIED: a pool thread has taken the cancelled item off the queue

    def _waitable_done(self):
        # concurrent.futures.wait() only counts FINISHED and CANCELLED_AND_NOTIFIED futures as done (done() also says True for CANCELLED)
        return self.state == "finished" or (self.state == "cancelled" and self._notified)

    def cancel(self):
        if self.state in ("running", "finished"):
            return False
        if self.state == "pending":
            self.state = "cancelled"
            self._run_cbs()
        return True

    def cancelled(self):
        return self.state == "cancelled"

    def running(self):
        return self.state == "running"

    def done(self):
        return self.state in ("cancelled", "finished")

    def result(self, timeout=None):
        s, t, p = ctx()
        if not self.done():
            s.block(self.done, timeout, False, False)
        if self.state == "cancelled":
            raise CancelledError()
        if not self.done():
            raise TimeoutError()
        if self._exc is not None:
            raise self._exc
        return self._result

    def exception(self, timeout=None):
        s, t, p = ctx()
        if not self.done():
            s.block(self.done, timeout, False, False)
        if self.state == "cancelled":
            raise CancelledError()
        return self._exc

    def add_done_callback(self, fn):
        if self.done():
            try:
                fn(self)
            except Exception:
                pass                  # concurrent.futures logs and swallows callback exceptions
            return
        self._cbs.append(fn)

    def _run_cbs(self):
        for fn in self._cbs:
            try:
                fn(self)
            except Exception:
                pass

    def _finish(self, result, exc):
        self._result, self._exc = result, exc
        self.state = "finished"
        self._run_cbs()


class SimExecutor:
    """The contract of ThreadPoolExecutor that gthread relies on (validated against the real one by a self-test)."""

    def __init__(self, max_workers=None, **kw):
        s, t, p = ctx()
        self.max_workers = max_workers or 1
        self.queue = collections.deque()
        self.idle = 0
        self.nthreads = 0
        self._shutdown = False
        self._lock_owner = None
        self.proc = p
        p.atexit.append(self._at_exit)

    def _at_exit(self):
        self._shutdown = True

    def submit(self, fn, *args, **kwargs):
        s, t, p = ctx()
        # ThreadPoolExecutor.submit() runs under the executor's (non-reentrant) _shutdown_lock; shutdown() takes the same lock
        if self._lock_owner is not None and self._lock_owner is not t:
            s.block(lambda: self._lock_owner is None, None, False, False)
        self._lock_owner = t
        try:
            if self._shutdown:
                raise RuntimeError("cannot schedule new futures after shutdown")
            f = SimFuture()
            self.queue.append((f, fn, args, kwargs))
            if self.idle == 0 and self.nthreads < self.max_workers:
                self.nthreads += 1
                s.new_task(p, self._worker, "%s.pool%d" % (p.name, self.nthreads), False)
            s.ev(p.name, "submit", len(self.queue))
            s.tick()                  # a signal handler may run here, inside the locked region
        finally:
            self._lock_owner = None
        return f

    def _worker(self):
        s, t, p = ctx()
        while True:
            if not self.queue:
                if self._shutdown:
                    return
                self.idle += 1
                s.block(lambda: bool(self.queue) or self._shutdown, None, False, False)
                self.idle -= 1
                continue
            f, fn, args, kwargs = self.queue.popleft()
            if f.state == "cancelled":
                f._notified = True
                continue
            f.state = "running"
            try:
                r = fn(*args, **kwargs)
            except SimKilled:
                raise
            except BaseException as e:
                f._finish(None, e)
            else:
                f._finish(r, None)
            s.tick()

    def shutdown(self, wait=True, cancel_futures=False):
        s, t, p = ctx()
        if self._lock_owner is t:
            # called from a signal handler that interrupted submit() in the same thread: the lock is not reentrant - the thread waits
            # for itself, for ever
            s.probe("executor_shutdown_deadlock")
            s.ev(p.name, "executor-deadlock", None)
            s.block(lambda: False, None, False, False)
        elif self._lock_owner is not None:
            s.block(lambda: self._lock_owner is None, None, False, False)
        self._shutdown = True
        if cancel_futures:
            while self.queue:
                f = self.queue.popleft()[0]
                f.cancel()
        if wait:
            s.block(lambda: self.nthreads == 0 or all(x.state == "done" for x in p.tasks if not x.is_main), None, False, False)
        s.tick()


DoneAndNotDone = collections.namedtuple("DoneAndNotDoneFutures", "done not_done")


class FakeFutures:
    FIRST_COMPLETED = "FIRST_COMPLETED"
    FIRST_EXCEPTION = "FIRST_EXCEPTION"
    ALL_COMPLETED = "ALL_COMPLETED"
    ThreadPoolExecutor = SimExecutor
    CancelledError = CancelledError

    def __getattr__(self, name):
        raise SeamLeak("concurrent.futures.%s is not modelled" % name)

    def wait(self, fs, timeout=None, return_when="ALL_COMPLETED"):
        s, t, p = ctx()
        fs = list(fs)
        done = [f for f in fs if f._waitable_done()]
        if return_when == "FIRST_COMPLETED" and done:
            s.tick()
            return DoneAndNotDone(set(done), set(fs) - set(done))
        if len(done) == len(fs):
            s.tick()
            return DoneAndNotDone(set(done), set())
        if return_when == "FIRST_COMPLETED":
            pred = lambda: any(f._waitable_done() for f in fs)
        else:
            pred = lambda: all(f._waitable_done() for f in fs)
        s.block(pred, timeout, False, False)
        done = [f for f in fs if f._waitable_done()]
        s.tick()
        return DoneAndNotDone(set(done), set(fs) - set(done))


class SimRLock:
    def __init__(self):
        self.owner = None
        self.count = 0

    def acquire(self, blocking=True, timeout=-1):
        s, t, p = ctx()
        s.tick()
        if self.owner is t:
            self.count += 1
            return True
        if self.owner is not None:
            if not blocking:
                return False
            s.probe("rlock_contended")
            s.block(lambda: self.owner is None, None if timeout is None or timeout < 0 else timeout, False, False)
            if self.owner is not None:
                return False
        self.owner = t
        self.count = 1
        return True

    def release(self):
        s, t, p = ctx()
        if self.owner is not t:
            raise RuntimeError("cannot release un-acquired lock")
        self.count -= 1
        if self.count == 0:
            self.owner = None
        s.tick()

    __enter__ = acquire

    def __exit__(self, *a):
        self.release()
