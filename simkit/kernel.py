"""simkit.kernel — the simulated POSIX-shaped kernel and the baton scheduler (DESIGN §2.2-2.5, Appendix D).

One Sim per run.  Every simulated thread of control is a real threading.Thread that only runs while it
holds the baton; who runs next is always the scheduler's decision (a draw from Choices).  Time is discrete-event:
when nothing is runnable the clock jumps to the next deadline.

Rules encoded here (each is also listed in the evidence `assumptions` of the checks that rely on them):
  * signals: standard signals coalesce while pending; handlers run on the main thread of the process at a
    delivery point (return from a simulated system call, wake-up from an interruptible blocking call, an
    explicit tick); a handler that returns lets the blocking call resume with the remaining timeout (PEP 475),
    one that raises makes the exception leave the call; SIGKILL/SIGSTOP cannot be caught; a signal whose
    siginterrupt flag is False (SA_RESTART) does not wake recv/accept/read/write/waitpid-style calls - its
    Python handler runs when the call returns - but does wake select/sleep (never restarted by the kernel);
    set_wakeup_fd gets a byte on arrival.
  * fork copies the descriptor table (sharing open file descriptions incl. O_NONBLOCK and offsets),
    credentials, environ, handlers; pending signals are cleared.  execvpe keeps non-CLOEXEC descriptors,
    resets handlers, replaces environ.  exit closes every descriptor, leaves a zombie, raises SIGCHLD in the
    parent, re-parents children to pid 1 (which reaps).
  * a listening socket exists while any process holds a descriptor for it; connect() succeeds exactly then;
    closing the last descriptor resets connections still waiting in its accept queue.
  * descriptors are allocated lowest-free per process.
"""
import errno
import os as _os
import signal as _signal
import stat as _stat
import threading
import traceback

from simkit.core import HarnessError, SeamLeak, StepCap, EventLog

SIGNAMES = {int(getattr(_signal, n)): n for n in dir(_signal) if n.startswith("SIG") and not n.startswith("SIG_")
            and isinstance(getattr(_signal, n), _signal.Signals)}
SIG_DFL = _signal.SIG_DFL
SIG_IGN = _signal.SIG_IGN
DEFAULT_IGNORE = {int(_signal.SIGCHLD), int(_signal.SIGWINCH), int(_signal.SIGURG), int(_signal.SIGCONT)}
DEFAULT_STOP = {int(_signal.SIGSTOP), int(_signal.SIGTSTP), int(_signal.SIGTTIN), int(_signal.SIGTTOU)}
SIGKILL, SIGSTOP, SIGCONT, SIGCHLD = int(_signal.SIGKILL), int(_signal.SIGSTOP), int(_signal.SIGCONT), int(_signal.SIGCHLD)


class SimKilled(BaseException):
    """Unwinds the Python stack of a simulated process that no longer exists."""


class _ExecReplace(BaseException):
    def __init__(self, program, argv, environ):
        self.program, self.argv, self.environ = program, argv, environ


# ------------------------------------------------------------------------------------------ kernel objects
class Inode:
    def __init__(self, kind, mode, uid, gid):
        self.kind = kind            # 'file' | 'dir' | 'sock'
        self.data = bytearray()
        self.mode = mode
        self.uid, self.gid = uid, gid
        self.mtime = 0.0
        self.nlink = 1
        self.listener = None        # for 'sock' nodes


class Pipe:
    def __init__(self):
        self.buf = bytearray()
        self.readers = 1             # open file descriptions (not descriptors) per end
        self.writers = 1
        self.cap = 65536


class Listener:
    def __init__(self, family):
        self.family = family
        self.addr = None
        self.listening = False
        self.queue = []
        self.open = True
        self.accepted = 0


class Stream:
    """One direction-pair end of a connected stream socket."""

    def __init__(self, sim, name):
        self.sim = sim
        self.name = name
        self.peer = None
        self.rbuf = bytearray()
        self.eof = False          # peer has shut down / closed its write side
        self.rst = False          # peer reset
        self.closed = False
        self.shut_wr = False
        self.local = None
        self.remote = None
        self.sndcap = 1 << 20


class OFD:
    """Open file description (shared by dup/fork)."""

    def __init__(self, kind, obj):
        self.kind = kind          # 'pipe_r' 'pipe_w' 'listen' 'stream' 'file' 'sockraw'
        self.obj = obj
        self.refs = 0
        self.nonblock = False
        self.offset = 0
        self.family = None


class FdEntry:
    __slots__ = ("ofd", "cloexec")

    def __init__(self, ofd, cloexec=False):
        self.ofd = ofd
        self.cloexec = cloexec


class Proc:
    def __init__(self, pid, ppid, name=""):
        self.pid, self.ppid, self.name = pid, ppid, name
        self.state = "running"       # running | zombie | gone
        self.status = None
        self.fds = {}
        self.environ = {}
        self.ruid = self.euid = self.suid = 0
        self.rgid = self.egid = self.sgid = 0
        self.groups = [0]
        self.umask = 0o022
        self.cwd = "/srv"
        self.handlers = {}
        self.pending = []            # ordered, no duplicates (standard signals coalesce)
        self.blocked = set()         # signal mask (pthread_sigmask): blocked signals stay pending
        self.sigint_flag = {}        # sig -> bool (True = interrupting, the signal.signal default)
        self.wakeup_fd = -1
        self.stopped = False
        self.coop = False            # the process runs green threads (co-operative scheduling among its tasks)
        self.coop_running = None     # the green thread that was pre-empted mid-run (no sibling may run before it blocks)
        self.tasks = []
        self.exiting = None
        self.sig_received = []
        self.in_handler = 0
        self.atexit = []

    def main(self):
        return self.tasks[0] if self.tasks else None


class Task:
    def __init__(self, sim, proc, fn, name, is_main):
        self.sim, self.proc, self.fn, self.name, self.is_main = sim, proc, fn, name, is_main
        self.sem = threading.Semaphore(0)
        self.state = "runnable"      # runnable | blocked | done
        self.pred = None
        self.deadline = None
        self.interruptible = False
        self.restartable = False
        self.killed = False
        self.woke = None
        self.ticks = 0
        self.tick_hooks = {}
        self.thread = threading.Thread(target=self._body, name="sim-" + name, daemon=True)
        self.started = False
        self.prio = 0
        self.spin_mark = -1.0
        self.spin_n = 0
        self.spun = False
        self.in_py_tick = False
        self.low = False
        self.timeout_at = None       # armed by gevent_shim.Timeout
        self.timeout_obj = None
        self.throw = None            # an exception to raise in this task at its current / next blocking point (eventlet kill)
        self.greenlet = False
        self.sysexit = False

    def _body(self):
        sim = self.sim
        self.sem.acquire()
        _tls.task = self
        status = 0
        fn = self.fn
        try:
            while True:
                try:
                    if self.killed:
                        raise SimKilled()
                    fn()
                    status = 0
                    break
                except _ExecReplace as ex:
                    prog = ex.program

                    def fn(p=prog, a=ex.argv):
                        # loading a new program image (interpreter start-up, imports) takes time: the process that exec'd is not runnable
                        # again at once - in particular its parent gets to return from fork() long before the new program does anything
                        sim.block(lambda: False, sim.exec_latency, False, False)
                        return p(a)
                    continue
        except SimKilled:
            status = None
        except SystemExit as e:
            self.sysexit = True
            code = e.code
            if code is None:
                status = 0
            elif isinstance(code, int):
                status = (code & 0xFF) << 8
            else:
                status = 1 << 8
        except HarnessError as e:
            sim.crash = "%s: %s" % (type(e).__name__, e)
            status = None
        except BaseException:
            if self.killed:
                status = None
            else:
                # an exception that escaped the simulated program: what CPython does is print it and exit 1
                sim.escaped.append((self.name, traceback.format_exc(limit=8)))
                status = 1 << 8
        finally:
            try:
                sim._task_done(self, status)
            except BaseException:
                sim.crash = sim.crash or ("task_done failed: " + traceback.format_exc(limit=6))
            self.state = "done"
            _tls.task = None
            sim.driver_sem.release()


_tls = threading.local()


def current_task():
    return getattr(_tls, "task", None)


class Sim:
    """One simulated machine + scheduler."""

    def __init__(self, choices, max_steps=200000, max_time=600.0):
        self.choices = choices
        self.log = EventLog(keep=600)
        self.now = 0.0
        self.epoch = 1_700_000_000.0
        self.procs = {}
        self.tasks = []
        self.next_pid = 100
        self.driver_sem = threading.Semaphore(0)
        self.crash = None
        self.escaped = []
        self.steps = 0
        self.max_steps = max_steps
        self.max_time = max_time
        self.timers = []             # [time, seq, fn]
        self.tseq = 0
        self.exec_latency = 0.02
        self.fs = {"/": Inode("dir", 0o755, 0, 0), "/tmp": Inode("dir", 0o1777, 0, 0), "/run": Inode("dir", 0o755, 0, 0),
                   "/srv": Inode("dir", 0o755, 0, 0)}
        self.listeners = {}          # addr -> Listener
        self.programs = {}
        self.mkstemp_n = 0
        self.faults = {}
        self.probes = {}
        self.preempt_at = set()
        self.fine_interleave = 0     # n > 0: after every tick switch with probability 1/n
        self.fine_filter = None      # optional predicate(task): restrict the fine-grained mode to some threads
        self.fine_long = False       # fine-grained mode: a pre-empted thread resumes only when all others have blocked
        self.py_ticks = False        # True: eval-breaker points inside monitored Python code are ticks too (simkit.preempt)
        self.spin_limit = 2000
        self.spin_cost = 0.02
        self.spin_log = []
        self.on_spin = None
        self.pid_max = None          # set to make pid numbers wrap around and be reused
        self.tickn = 0
        self.fs_fail = None          # callable(op, path) -> errno or None
        self.sys_fail = None         # callable(proc, op) -> errno or None
        self.passwd = {0: ("root", 0, [0]), 1000: ("app", 1000, [1000, 2000, 2001]), 1001: ("svc", 1001, [1001]),
                       65534: ("nobody", 65534, [65534])}
        self.observers = []          # callables(kind, detail) notified of selected kernel events
        self.stopped_reason = None
        self.init = Proc(1, 0, "init")
        self.procs[1] = self.init
        self.port_seq = 50000
        self.urandom_n = 0
        self.quiet = False
        self.buggify = {}
        self.stolen = []             # connections 'accepted by a sibling worker' (accept_eagain fault)
        self.short_write = None      # callable(proc, n) -> bytes actually written (storage fault)
        self.on_fork = None          # callable(parent_proc, child_proc, parent_task) -> child continuation

    # ---------------------------------------------------------------- bookkeeping
    def fault(self, name, n=1):
        self.faults[name] = self.faults.get(name, 0) + n

    def probe(self, name, n=1):
        self.probes[name] = self.probes.get(name, 0) + n

    def ev(self, actor, kind, detail=None):
        self.log.add(actor, kind, detail)
        for ob in self.observers:
            ob(self, actor, kind, detail)

    def wall(self, proc=None):
        return self.epoch + self.now

    # ---------------------------------------------------------------- tasks / scheduler
    def alloc_pid(self):
        """Sequential pids; with pid_max set they wrap around and numbers of processes that are gone are reused."""
        span = 100000 if self.pid_max is None else (self.pid_max - 100 + 2)
        for _ in range(span):
            pid = self.next_pid
            self.next_pid += 1
            if self.pid_max is not None and self.next_pid > self.pid_max:
                self.next_pid = 101
                self.probe("pid_wrapped")
            old = self.procs.get(pid)
            if old is None or old.state == "gone":
                if old is not None:
                    self.probe("pid_recycled")
                return pid
        # the (deliberately small) pid space is full: hand out numbers above it rather than failing fork()
        self.overflow_pid = max(getattr(self, "overflow_pid", 0), self.pid_max or 0) + 1
        return self.overflow_pid

    def spawn_proc(self, fn, name, ppid=1, environ=None, uid=0, gid=0):
        pid = self.alloc_pid()
        p = Proc(pid, ppid, name)
        p.environ = dict(environ or {})
        p.ruid = p.euid = p.suid = uid
        p.rgid = p.egid = p.sgid = gid
        p.groups = [gid]
        self.procs[pid] = p
        self.new_task(p, fn, name, True)
        return p

    def new_task(self, proc, fn, name, is_main=False):
        t = Task(self, proc, fn, name, is_main)
        proc.tasks.append(t)
        self.tasks.append(t)
        return t

    def after(self, delay, fn):
        self.tseq += 1
        self.timers.append([self.now + delay, self.tseq, fn])

    def _ready(self):
        out = []
        for t in self.tasks:
            cr = t.proc.coop_running
            if cr is not None and cr is not t and cr.state == "runnable" and not t.killed:
                continue
            if t.state == "runnable":
                if t.proc.stopped and not t.killed:
                    continue
                out.append(t)
            elif t.state == "blocked":
                if t.killed:
                    t.woke = "killed"
                    out.append(t)
                    continue
                if t.proc.stopped:
                    continue
                if t.throw is not None:
                    t.woke = "throw"
                    out.append(t)
                    continue
                if t.is_main and t.proc.pending and self._wakes(t):
                    t.woke = "signal"
                    out.append(t)
                elif t.pred is not None and t.pred():
                    t.woke = "ready"
                    out.append(t)
                elif t.deadline is not None and t.deadline <= self.now + 1e-12:
                    t.woke = "timeout"
                    out.append(t)
        return out

    def _wakes(self, t):
        """Does some pending signal wake task t from its current blocking call?"""
        p = t.proc
        for s in p.pending:
            if s in p.blocked:
                continue
            h = p.handlers.get(s, SIG_DFL)
            if h is SIG_IGN or (h is SIG_DFL and s in DEFAULT_IGNORE):
                return True          # will be discarded at delivery; harmless wake
            if h is SIG_DFL:
                return True
            if t.interruptible and (not t.restartable or p.sigint_flag.get(s, True)):
                return True
        return False

    def run(self, until=None):
        """Drive the simulation until nothing can happen any more, `until()` is true, or a cap is hit."""
        while True:
            if self.crash:
                break
            if until is not None and until():
                self.stopped_reason = "until"
                break
            # due timers first (they are events of the environment)
            due = [tm for tm in self.timers if tm[0] <= self.now + 1e-12]
            if due:
                due.sort(key=lambda x: (x[0], x[1]))
                tm = due[0]
                self.timers.remove(tm)
                tm[2]()
                continue
            ready = self._ready()
            if not ready:
                nxt = None
                for t in self.tasks:
                    if t.state == "blocked" and t.deadline is not None and not t.proc.stopped:
                        nxt = t.deadline if nxt is None else min(nxt, t.deadline)
                for tm in self.timers:
                    nxt = tm[0] if nxt is None else min(nxt, tm[0])
                if nxt is None:
                    self.stopped_reason = "quiescent"
                    break
                if nxt > self.max_time:
                    self.stopped_reason = "time-cap"
                    break
                self.now = max(self.now, nxt)
                continue
            self.steps += 1
            if self.steps > self.max_steps:
                self.stopped_reason = "step-cap"
                break
            hi = [x for x in ready if not x.low]
            if hi:
                ready = hi
            else:
                for x in ready:
                    x.low = False
            if len(ready) == 1:
                t = ready[0]
            else:
                t = ready[self.choices.choose(len(ready), "sched")]
            self._resume(t)
        return self.stopped_reason

    def _resume(self, t):
        if t.state == "blocked":
            t.state = "runnable"
        t.pred = None
        if not t.started:
            t.started = True
            t.thread.start()
        t.sem.release()
        self.driver_sem.acquire()

    def shutdown(self):
        """Kill every remaining task and join the threads (end of run)."""
        for t in self.tasks:
            if t.state != "done":
                t.killed = True
        for _ in range(len(self.tasks) * 2 + 4):
            live = [t for t in self.tasks if t.state != "done" and t.started]
            if not live:
                break
            for t in live:
                if t.state != "done":
                    t.woke = "killed"
                    self._resume(t)
        leaked = [t.name for t in self.tasks if t.state != "done" and t.started]
        if leaked:
            raise HarnessError("leaked simulated threads: %r" % leaked[:5])
        for t in self.tasks:
            if t.started:
                t.thread.join(timeout=5)

    # called from task context ------------------------------------------------
    def _switch(self, t):
        self.driver_sem.release()
        t.sem.acquire()
        if t.killed:
            raise SimKilled()

    def yield_now(self, preempt=False):
        t = current_task()
        if t is None:
            return
        t.state = "runnable"
        if preempt and t.proc.coop:
            # green threads of one process are scheduled co-operatively: a pre-emption (of the OS thread they all share) lets OTHER
            # processes run, but no sibling green thread may run before this one has reached a blocking call of its own
            t.proc.coop_running = t
        self._switch(t)
        if t.proc.coop_running is t:
            t.proc.coop_running = None

    def block(self, pred, timeout=None, interruptible=True, restartable=False):
        """Block the current task until pred() or timeout.  Returns 'ready' | 'timeout' | 'signal'."""
        t = current_task()
        if t is None:
            if pred():
                return "ready"
            raise HarnessError("blocking call outside a simulated task")
        deadline = None if timeout is None else self.now + max(0.0, timeout)
        while True:
            if t.throw is not None:
                exc, t.throw = t.throw, None
                raise exc                    # thrown into this (green) thread by another one (eventlet's kill)
            if pred():
                return "ready"
            if t.timeout_at is not None and t.timeout_at <= self.now + 1e-12:
                raise t.timeout_obj          # a (simulated) gevent.Timeout armed around this blocking call
            if deadline is not None and deadline <= self.now + 1e-12:
                return "timeout"
            eff = deadline if t.timeout_at is None else (t.timeout_at if deadline is None else min(deadline, t.timeout_at))
            t.pred, t.deadline, t.interruptible, t.restartable = pred, eff, interruptible, restartable
            t.state = "blocked"
            t.woke = None
            self._switch(t)
            woke = t.woke
            t.pred = None
            t.deadline = None
            if t.throw is not None:
                exc, t.throw = t.throw, None
                raise exc                    # (whatever else woke it: the exception arrives at the suspension point)
            if woke == "signal":
                if self.deliver_signals(t):
                    # handlers ran and returned: PEP 475 - resume the call with the remaining timeout
                    continue
                continue
            if woke == "timeout":
                if t.timeout_at is not None and t.timeout_at <= self.now + 1e-12:
                    raise t.timeout_obj
                if deadline is not None and deadline <= self.now + 1e-12:
                    return "timeout"
                continue
            if woke == "ready":
                return "ready"

    def tick(self, kind="sys"):
        """A scheduling / signal-delivery point of the current task."""
        t = current_task()
        if t is None:
            return
        if t.killed:
            raise SimKilled()
        t.ticks += 1
        self.tickn += 1
        # a loop that never blocks burns CPU: computation takes time.  After spin_limit system calls without a blocking
        # call at one simulated instant the task is charged spin_cost seconds (and the event is recorded)
        if t.spin_mark != self.now:
            t.spin_mark = self.now
            t.spin_n = 0
        t.spin_n += 1
        if t.spin_n > (self.spin_limit if not t.spun else 50):
            t.spin_n = 0
            t.spun = True
            self.spin_log.append((t.name, self.now))
            self.probes["cpu_spin_throttled"] = self.probes.get("cpu_spin_throttled", 0) + 1
            if self.on_spin is not None:
                self.on_spin(t)
            self.block(lambda: False, self.spin_cost if t.spin_n == 0 and not t.spun else 0.05, False, False)
        hooks = t.tick_hooks
        if hooks:
            fn = hooks.pop(t.ticks, None)
            if fn is not None:
                fn()
        if self.tickn in self.preempt_at:
            self.fault("forced_preemption")
            self.yield_now(preempt=True)
        elif self.fine_interleave and (self.fine_filter is None or self.fine_filter(t)) \
                and self.choices.coin(1, self.fine_interleave, "fine"):
            # fine-grained mode (a fraction of the runs): any simulated system call may be followed by a switch.
            # In 'long' mode the pre-empted thread stays descheduled until every other thread has blocked (a PCT-style
            # priority drop): that is what exposes races that need the other side to run a long stretch undisturbed.
            self.fault("fine_interleave_switch")
            if self.fine_long:
                t.low = True
            self.yield_now(preempt=True)
        if t.is_main and t.proc.pending:
            self.deliver_signals(t)

    # ---------------------------------------------------------------- signals
    def kill(self, pid, sig, sender="env", sender_proc=None):
        if pid == 0 and sender_proc is not None:
            # the caller's own process group: the existence probe always succeeds (the caller is a member)
            if sig == 0:
                return
            raise NotImplementedError("kill(0, %d): process groups are not modelled" % sig)
        p = self.procs.get(pid)
        if p is None or p.state == "gone":
            raise ProcessLookupError(errno.ESRCH, "No such process")
        if sender_proc is not None and sender_proc.euid != 0 and \
                sender_proc.ruid not in (p.ruid, p.suid) and sender_proc.euid not in (p.ruid, p.suid):
            raise PermissionError(errno.EPERM, "Operation not permitted")
        if sig == 0:
            return
        self.ev(sender, "kill", (pid, SIGNAMES.get(sig, sig)))
        if p.state == "zombie":
            return
        if sig == SIGKILL:
            self._terminate(p, SIGKILL)
            return
        if sig == SIGSTOP:
            p.stopped = True
            return
        if sig == SIGCONT:
            p.stopped = False
        h = p.handlers.get(sig, SIG_DFL)
        if h is SIG_IGN or (h is SIG_DFL and sig in DEFAULT_IGNORE):
            return
        if h is SIG_DFL and sig in DEFAULT_STOP:
            p.stopped = True
            return
        if sig in p.pending:
            self.probe("signal_coalesced")
            return
        p.pending.append(sig)
        if h is not SIG_DFL and p.wakeup_fd >= 0:
            e = p.fds.get(p.wakeup_fd)
            if e is not None and e.ofd.kind == "pipe_w" and len(e.ofd.obj.buf) < e.ofd.obj.cap:
                e.ofd.obj.buf.append(sig & 0xFF)
        if p.stopped:
            return
        cur = current_task()
        if h is SIG_DFL and sig not in p.blocked and not (cur is not None and cur.proc is p):
            # default action: terminate (takes effect at once, whatever the target is doing)
            p.pending.remove(sig)
            self._terminate(p, sig)

    def deliver_signals(self, t):
        """Run pending handlers on task t (main thread of its process).  True if any ran."""
        p = t.proc
        ran = False
        if getattr(t, "fork_zero", False):
            # fork by re-entry: this child is still re-executing the code that, in a real child, ran in the parent BEFORE fork().  The
            # process only begins to exist when its fork() returns 0; a signal sent to it meanwhile stays pending until then
            return False
        i = 0
        while i < len(p.pending) and not p.stopped:
            if p.pending[i] in p.blocked:
                i += 1
                continue
            sig = p.pending.pop(i)
            h = p.handlers.get(sig, SIG_DFL)
            if h is SIG_IGN or (h is SIG_DFL and sig in DEFAULT_IGNORE):
                continue
            if h is SIG_DFL:
                self._terminate(p, sig)
                raise SimKilled()
            p.sig_received.append((self.now, sig))
            self.ev(p.name, "handler", SIGNAMES.get(sig, sig))
            ran = True
            p.in_handler += 1
            try:
                h(sig, None)
            finally:
                p.in_handler -= 1
        return ran

    def _terminate(self, p, sig):
        """Default-action death of process p by signal sig."""
        if p.state != "running":
            return
        self.ev(p.name, "killed-by", SIGNAMES.get(sig, sig))
        self._finalize_exit(p, sig & 0x7F)
        for t in p.tasks:
            if t.state != "done":
                t.killed = True

    # ---------------------------------------------------------------- process exit
    def _task_done(self, t, status):
        p = t.proc
        if p.state != "running":
            return
        if t.is_main or (t.greenlet and t.sysexit and status is not None):
            if status is None:
                return
            if p.exiting is None:
                p.exiting = status
            for fn in p.atexit:
                fn()
            # greenlets die with the main greenlet (no join at interpreter exit, unlike executor threads)
            for x in p.tasks:
                if x.greenlet and x.state != "done" and x is not t:
                    x.killed = True
            if not t.is_main:
                # SystemExit raised in a greenlet ends the whole process (it propagates to the hub / main greenlet)
                self._finalize_exit(p, p.exiting)
                for x in p.tasks:
                    if x.state != "done" and x is not t:
                        x.killed = True
                return
        if p.exiting is not None and all(x.state == "done" or x is t for x in p.tasks):
            self._finalize_exit(p, p.exiting)

    def _finalize_exit(self, p, status):
        if p.state != "running":
            return
        p.state = "zombie"
        p.status = status
        p.exit_time = self.now
        p.stopped = False
        for fd in sorted(p.fds):
            self._close_entry(p, fd)
        p.fds.clear()
        self.ev(p.name, "exit", status)
        for c in self.procs.values():
            if c.ppid == p.pid and c.pid != p.pid:
                c.ppid = 1
                if c.state == "zombie":
                    c.state = "gone"
        parent = self.procs.get(p.ppid)
        if parent is None or parent.pid == 1 or parent.state != "running":
            p.state = "gone"
        else:
            try:
                self.kill(parent.pid, SIGCHLD, sender=p.name)
            except ProcessLookupError:
                pass

    # ---------------------------------------------------------------- descriptors
    def alloc_fd(self, p, ofd, cloexec=False, lowest=0):
        fd = lowest
        while fd in p.fds:
            fd += 1
        p.fds[fd] = FdEntry(ofd, cloexec)
        ofd.refs += 1
        return fd

    def entry(self, p, fd):
        e = p.fds.get(fd)
        if e is None:
            raise OSError(errno.EBADF, "Bad file descriptor (simulated fd %r of pid %d)" % (fd, p.pid))
        return e

    def _close_entry(self, p, fd):
        e = p.fds.pop(fd, None)
        if e is None:
            raise OSError(errno.EBADF, "Bad file descriptor")
        o = e.ofd
        o.refs -= 1
        if o.refs == 0:
            if o.kind == "pipe_r":
                o.obj.readers -= 1
            elif o.kind == "pipe_w":
                o.obj.writers -= 1
            elif o.kind == "listen":
                l = o.obj
                l.open = False
                self.ev(p.name, "listener-closed", repr(l.addr))
                for s in l.queue:
                    s.closed = True
                    if s.peer is not None:
                        s.peer.rst = True
                l.queue = []
            elif o.kind == "stream":
                s = o.obj
                if not s.closed:
                    s.closed = True
                    if s.peer is not None:
                        if s.rbuf:
                            s.peer.rst = True      # closing with unread data resets the connection
                        s.peer.eof = True

    def close(self, p, fd):
        self._close_entry(p, fd)

    def fork_proc(self, parent, name):
        pid = self.alloc_pid()
        c = Proc(pid, parent.pid, name)
        for fd, e in parent.fds.items():
            c.fds[fd] = FdEntry(e.ofd, e.cloexec)
            e.ofd.refs += 1
        c.environ = dict(parent.environ)
        c.ruid, c.euid, c.suid = parent.ruid, parent.euid, parent.suid
        c.rgid, c.egid, c.sgid = parent.rgid, parent.egid, parent.sgid
        c.groups = list(parent.groups)
        c.umask, c.cwd = parent.umask, parent.cwd
        c.handlers = dict(parent.handlers)
        c.sigint_flag = dict(parent.sigint_flag)
        c.wakeup_fd = parent.wakeup_fd
        c.blocked = set(parent.blocked)
        self.procs[pid] = c
        return c

    # ---------------------------------------------------------------- file system
    def fs_check(self, op, path):
        if self.fs_fail is not None:
            code = self.fs_fail(op, path)
            if code:
                self.fault("fs:%s:%s" % (op, errno.errorcode.get(code, code)))
                raise OSError(code, "%s (injected)" % _os.strerror(code), path)

    def norm(self, p, path):
        if isinstance(path, bytes):
            path = path.decode()
        if not path.startswith("/"):
            path = p.cwd.rstrip("/") + "/" + path
        return _os.path.normpath(path)

    def lookup(self, p, path):
        path = self.norm(p, path)
        n = self.fs.get(path)
        if n is None:
            raise FileNotFoundError(errno.ENOENT, "No such file or directory", path)
        return n

    def listener_for(self, addr):
        if isinstance(addr, (str, bytes)):
            path = addr.decode() if isinstance(addr, bytes) else addr
            n = self.fs.get(_os.path.normpath(path))
            if n is None or n.kind != "sock" or n.listener is None:
                return None
            return n.listener
        return self.listeners.get(tuple(addr[:2]))

    # ---------------------------------------------------------------- client side (scripted peers)
    def connect(self, addr, name="client"):
        """Client connect: returns the client Stream end or raises ConnectionRefusedError."""
        l = self.listener_for(addr)
        if l is None or not l.open or not l.listening:
            self.ev(name, "connect-refused", repr(addr))
            raise ConnectionRefusedError(errno.ECONNREFUSED, "Connection refused (simulated)")
        self.port_seq += 1
        cli = Stream(self, name)
        srv = Stream(self, "srv<-" + name)
        cli.peer, srv.peer = srv, cli
        cli.local = ("10.0.0.9", self.port_seq)
        cli.remote = addr
        srv.local = l.addr
        srv.remote = cli.local if not isinstance(addr, (str, bytes)) else ""
        l.queue.append(srv)
        self.ev(name, "connect", repr(addr))
        return cli
