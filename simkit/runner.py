"""simkit.runner — fan runs out over a fork pool, aggregate evidence, minimise and re-verify violations.

A check module (checks/cNN.py) provides:
    ID, LEVEL, RULE, ASSUMPTIONS, COMPONENTS, DESIGN_REF
    QUICK_RUNS (int), BATCH (int), CASE_WALL_S (float, per-run wall cap)
    make_case(index, rng, tier) -> JSON-able dict       (index < n_systematic(tier): corpus sweep)
    run(case, choices) -> core.Result
    shrink(case) -> iterable of simpler cases           (optional)
    summarize(case) -> JSON-able short description      (optional)
Exit codes: 0 held (known findings allowed) / 1 VIOLATION / 2 HARNESS-ERROR.
"""
import faulthandler
import fnmatch
import json
import os
import random
import signal
import subprocess
import sys
import time
import traceback
from collections import Counter
from concurrent.futures import ProcessPoolExecutor, as_completed
import multiprocessing

from simkit.core import Choices, HarnessError, Result, derive_seed
from simkit import core as _core

ROOT = os.environ.get("GV_ROOT") or os.path.dirname(os.path.dirname(os.path.abspath(__file__)))
N_DET = 6          # runs re-executed in a fresh interpreter under another hash seed on every check


class WallCap(HarnessError):
    pass


_WALL = {"fired": False}


def _alarm(signum, frame):
    # code under test may swallow the exception (except BaseException in the workers): remember it
    # and fire again so that the run cannot continue for long
    _WALL["fired"] = True
    signal.setitimer(signal.ITIMER_REAL, 1.0)
    raise WallCap("per-run wall cap hit")


def run_guarded(mod, case, choices):
    """Run one case under a wall-clock watchdog.  Returns (Result|None, error-string|None)."""
    cap = getattr(mod, "CASE_WALL_S", 20.0)
    old = signal.signal(signal.SIGALRM, _alarm)
    _WALL["fired"] = False
    _core.RAISED["last"] = None
    signal.setitimer(signal.ITIMER_REAL, cap)
    try:
        res = mod.run(case, choices)
        if _WALL["fired"]:
            return None, "WallCap: per-run wall cap (%.0fs) hit" % cap
        if _core.RAISED["last"]:
            return None, "swallowed " + _core.RAISED["last"]
        return res, None
    except HarnessError as e:
        return None, "%s: %s" % (type(e).__name__, e)
    except BaseException as e:   # bug in the harness itself
        if isinstance(e, KeyboardInterrupt):
            raise
        return None, "harness exception: " + traceback.format_exc(limit=12)
    finally:
        signal.setitimer(signal.ITIMER_REAL, 0)
        signal.signal(signal.SIGALRM, old)


def run_isolated(mod, case, choices):
    """Run one case in a forked child so that no interpreter-level state (class attributes, module globals, leaked
    threads) survives from one simulated run to the next: every run starts from the state right after import, as a
    freshly started gunicorn would.  Returns (Result|None, error|None, choice_log)."""
    import pickle
    r, w = os.pipe()
    pid = os.fork()
    if pid == 0:
        os.close(r)
        code = 0
        try:
            res, err = run_guarded(mod, case, choices)
            if res is not None:
                res.violate = None
                res.__dict__.pop("violate", None)
            data = pickle.dumps((res, err, choices.log), protocol=4)
            with os.fdopen(w, "wb") as f:
                f.write(data)
        except BaseException:
            code = 3
        os._exit(code)
    os.close(w)
    chunks = []
    with os.fdopen(r, "rb") as f:
        while True:
            b = f.read(1 << 16)
            if not b:
                break
            chunks.append(b)
    _, status = os.waitpid(pid, 0)
    if not chunks:
        return None, "isolated run died (wait status %r)" % status, []
    try:
        return pickle.loads(b"".join(chunks))
    except Exception as e:
        return None, "isolated run returned garbage: %r" % (e,), []


_SNAP = {"taken": False, "items": []}


def hermetic_reset():
    """One interpreter serves many simulated servers in a row.  Mutable containers bound at class or module level in gunicorn
    (state a real server would get fresh with every process) are put back to what they were right after import, so that nothing a run
    leaves behind can colour the next one - a violation must come from the history inside its own run, and then it reproduces."""
    import copy
    snap = _SNAP
    if not snap["taken"]:
        items = []
        for name, m in sorted(sys.modules.items()):
            if m is None or not (name == "gunicorn" or name.startswith("gunicorn.")):
                continue
            holders = [m] + [c for c in vars(m).values() if isinstance(c, type) and getattr(c, "__module__", None) == name]
            for h in holders:
                for an, av in list(vars(h).items()):
                    if an.startswith("__") or not isinstance(av, (dict, list, set, bytearray)):
                        continue
                    try:
                        items.append((h, an, av, copy.deepcopy(av)))
                    except Exception:
                        pass
        snap["items"] = items
        snap["taken"] = True
        return 0
    n = 0
    for h, an, obj, content in snap["items"]:
        try:
            cur = vars(h).get(an)
            if cur is obj and obj == content:
                continue
            n += 1
            fresh = copy.deepcopy(content)
            if isinstance(obj, dict):
                obj.clear()
                obj.update(fresh)
            elif isinstance(obj, set):
                obj.clear()
                obj.update(fresh)
            else:
                obj[:] = fresh
            if cur is not obj:
                setattr(h, an, obj)
        except Exception:
            pass
    return n


def run_any(mod, case, choices):
    if getattr(mod, "ISOLATE", False):
        res, err, log = run_isolated(mod, case, choices)
        choices.log[:] = log
        return res, err
    return run_guarded(mod, case, choices)


def case_for(mod, seed, index, tier):
    s = derive_seed(seed, mod.ID, index)
    rng = random.Random(s)
    return mod.make_case(index, rng, tier), s


def _batch(modname, tier, seed, start, count):
    mod = sys.modules.get(modname) or __import__(modname, fromlist=["x"])
    faulthandler.enable()
    out = {"n": 0, "shapes": set(), "states": set(), "faults": Counter(), "probes": Counter(),
           "sim_s": 0.0, "steps": 0, "nontrivial": 0, "viol": [], "errors": [], "digests": {},
           "samples": []}
    isolate = getattr(mod, "ISOLATE", False)
    for index in range(start, start + count):
        case, s = case_for(mod, seed, index, tier)
        ch = Choices(seed=s ^ 0x5DEECE66D)
        if not isolate:
            if hermetic_reset():
                out["probes"]["class_or_module_state_reset_between_runs"] += 1
        res, err = run_any(mod, case, ch)
        out["n"] += 1
        if err is not None:
            if len(out["errors"]) < 3:
                out["errors"].append({"index": index, "error": err})
            else:
                out["errors"].append({"index": index, "error": err[:200]})
            continue
        out["sim_s"] += res.sim_s
        out["steps"] += res.steps
        out["faults"].update(res.faults)
        out["probes"].update(res.probes)
        out["states"] |= res.states
        if res.nontrivial:
            out["nontrivial"] += 1
            out["shapes"].add(res.shape)
        if index < N_DET:
            out["digests"][index] = res.digest
        if index - start < 1 and res.sample is not None:
            out["samples"].append(res.sample)
        for key, msg in res.violations:
            out["viol"].append({"key": key, "msg": msg, "index": index, "case": case,
                                "choices": ch.log})
    return out


def load_known(prop):
    path = os.path.join(ROOT, "known_findings.json")
    try:
        with open(path) as f:
            data = json.load(f)
    except FileNotFoundError:
        return []
    return [e for e in data.get("findings", []) if e.get("property") == prop]


def match_known(known, key):
    for e in known:
        if e.get("status") == "known" and fnmatch.fnmatchcase(key, e["key"]):
            return e
    return None


def _reproduces(mod, case, choices, key):
    # always in a forked child of this (main) process, which itself never runs a case: what reproduces here reproduces from the state
    # right after import, independent of whatever an earlier run left behind in a pool process
    ch = Choices(replay=choices)
    res, err, log = run_isolated(mod, case, ch)
    if res is None:
        return None
    for k, m in res.violations:
        if k == key:
            return res, m
    return None


def minimise(mod, case, choices, key, wall=45.0):
    """Structural shrink of the case, then delta-debugging of the choice log; same key must recur."""
    t0 = time.time()
    best_case, best_ch = case, list(choices)
    if _reproduces(mod, best_case, best_ch, key) is None:
        return best_case, best_ch, False
    if _reproduces(mod, best_case, [], key) is not None:
        best_ch = []
    shrink = getattr(mod, "shrink", None)
    progress = True
    while progress and shrink is not None and time.time() - t0 < wall:
        progress = False
        for cand in shrink(best_case):
            if time.time() - t0 > wall:
                break
            for ch in ((best_ch, []) if best_ch else ([],)):
                if _reproduces(mod, cand, ch, key) is not None:
                    best_case, best_ch, progress = cand, list(ch), True
                    break
            if progress:
                break
    # ddmin over the choice log: delete blocks, then zero single entries
    n = 2
    while best_ch and time.time() - t0 < wall:
        size = max(1, len(best_ch) // n)
        removed = False
        i = 0
        while i < len(best_ch) and time.time() - t0 < wall:
            cand = best_ch[:i] + best_ch[i + size:]
            if _reproduces(mod, best_case, cand, key) is not None:
                best_ch = cand
                removed = True
            else:
                i += size
        if not removed:
            if size == 1:
                break
            n = min(len(best_ch), n * 2)
    for i in range(len(best_ch)):
        if time.time() - t0 > wall:
            break
        if best_ch[i] != 0:
            cand = best_ch[:i] + [0] + best_ch[i + 1:]
            if _reproduces(mod, best_case, cand, key) is not None:
                best_ch = cand
    while best_ch and best_ch[-1] == 0:
        best_ch.pop()
    return best_case, best_ch, True


def write_replay(mod, tier, seed, v, case, choices, res_digest, msg):
    d = os.path.join(ROOT, "replays")
    os.makedirs(d, exist_ok=True)
    safe = "".join(c if c.isalnum() else "_" for c in v["key"])[:60]
    path = os.path.join(d, "%s-%d-%d-%s.json" % (mod.ID, seed, v["index"], safe))
    with open(path, "w") as f:
        json.dump({"property": mod.ID, "tier": tier, "seed": seed, "index": v["index"],
                   "key": v["key"], "message": msg, "case": case, "choices": choices,
                   "digest": res_digest}, f, indent=1, sort_keys=True)
    return path


def replay_file(mod, path, quiet=False):
    with open(path) as f:
        rp = json.load(f)
    got = _reproduces(mod, rp["case"], rp["choices"], rp["key"])
    if got is None:
        if not quiet:
            print("NOT-REPRODUCED property=%s key=%s replay=%s" % (mod.ID, rp["key"], path))
        return 0
    res, msg = got
    if rp.get("digest") and res.digest != rp["digest"]:
        print("HARNESS-ERROR replay digest diverged (%s != %s) for %s" % (res.digest, rp["digest"], path))
        return 2
    known = match_known(load_known(mod.ID), rp["key"])
    if known:
        print("KNOWN-FINDING: property=%s %s [key=%s]" % (mod.ID, known["what_fails"], rp["key"]))
        print("REPRODUCED key=%s digest=%s" % (rp["key"], res.digest))
        print("  " + msg)
        return 0
    print("VIOLATION property=%s replay=%s" % (mod.ID, path))
    print("  key=%s digest=%s" % (rp["key"], res.digest))
    print("  " + msg)
    return 1


def digests_only(mod, tier, seed, start, count):
    out = {}
    for index in range(start, start + count):
        case, s = case_for(mod, seed, index, tier)
        res, err = run_any(mod, case, Choices(seed=s ^ 0x5DEECE66D))
        out[str(index)] = res.digest if res is not None else "ERR:" + err[:100]
    print("DIGESTS " + json.dumps(out, sort_keys=True))
    return 0


def run_one(mod, tier, seed, index):
    case, s = case_for(mod, seed, index, tier)
    ch = Choices(seed=s ^ 0x5DEECE66D)
    res, err = run_guarded(mod, case, ch)
    print(json.dumps({"case": case}, default=repr)[:4000])
    if err:
        print("ERROR", err)
        return 2
    print("digest", res.digest, "shape", res.shape, "steps", res.steps, "sim_s", res.sim_s)
    print("faults", dict(res.faults), "probes", dict(res.probes))
    print("violations", res.violations)
    print("choices", len(ch.log))
    return 0


def main_check(mod, tier, seed, runs=None, budget=None, jobs=None):
    t0 = time.time()
    jobs = jobs or int(os.environ.get("VERIF_JOBS", "0")) or min(16, os.cpu_count() or 4)
    quick_runs = runs or (mod.QUICK_RUNS if tier == "quick" else getattr(mod, "THOROUGH_MIN_RUNS", mod.QUICK_RUNS))
    if budget is None:
        budget = float(os.environ.get("VERIF_BUDGET_S", "0") or 0) or (None if tier == "quick" else 900.0)
    if tier == "quick":
        budget = None if runs is None and not os.environ.get("VERIF_BUDGET_S") else budget
    batch = getattr(mod, "BATCH", 100)
    modname = mod.__name__
    agg = {"n": 0, "shapes": set(), "states": set(), "faults": Counter(), "probes": Counter(),
           "sim_s": 0.0, "steps": 0, "nontrivial": 0, "viol": [], "errors": [], "digests": {},
           "samples": []}
    ctx = multiprocessing.get_context("fork")
    batch_wall = max(120.0, getattr(mod, "CASE_WALL_S", 20.0) * 4 + batch * 0.5)
    next_index = 0
    harness_errors = []
    with ProcessPoolExecutor(max_workers=jobs, mp_context=ctx) as ex:
        pending = set()

        def submit():
            nonlocal next_index
            f = ex.submit(_batch, modname, tier, seed, next_index, batch)
            f.start_index = next_index
            next_index += batch
            pending.add(f)

        stop_early = bool(os.environ.get("VERIF_STOP_ON_VIOLATION"))

        def want_more():
            if stop_early and agg["viol"] and not all(match_known(load_known(mod.ID), v["key"]) for v in agg["viol"]):
                return False          # sensitivity audits only need to know WHETHER the check fires (never used by registered commands)
            if next_index < quick_runs:
                return True
            if budget is not None and tier != "quick":
                return time.time() - t0 < budget
            return False

        while want_more() and len(pending) < jobs * 2:
            submit()
        while pending:
            try:
                done = next(as_completed(pending, timeout=batch_wall))
            except Exception:
                harness_errors.append("batch wall timeout (%.0fs) — a run hung" % batch_wall)
                for f in pending:
                    f.cancel()
                for p in list(getattr(ex, "_processes", {}).values()):
                    try:
                        p.kill()
                    except Exception:
                        pass
                break
            pending.discard(done)
            try:
                out = done.result()
            except Exception as e:
                harness_errors.append("batch %d failed: %r" % (done.start_index, e))
                continue
            agg["n"] += out["n"]
            agg["shapes"] |= out["shapes"]
            agg["states"] |= out["states"]
            agg["faults"].update(out["faults"])
            agg["probes"].update(out["probes"])
            agg["sim_s"] += out["sim_s"]
            agg["steps"] += out["steps"]
            agg["nontrivial"] += out["nontrivial"]
            agg["errors"].extend(out["errors"])
            agg["digests"].update(out["digests"])
            if len(agg["samples"]) < 4:
                agg["samples"].extend(out["samples"][:1])
            if len(agg["viol"]) < 4000:
                agg["viol"].extend(out["viol"])
            while want_more() and len(pending) < jobs * 2:
                submit()

    for e in agg["errors"][:5]:
        harness_errors.append("run %s: %s" % (e["index"], e["error"]))
    n_err = len(agg["errors"])

    # ---- determinism sample: same runs, fresh interpreter, another hash seed
    det_ok = None
    if agg["digests"] and not os.environ.get("VERIF_NO_DET"):
        env = dict(os.environ, VERIF_HASHSEED="4242", VERIF_SEED=str(seed), VERIF_NO_DET="1")
        try:
            cp = subprocess.run([os.path.join(ROOT, "bin", "check"), mod.ID, "--tier", tier,
                                 "--digests", "0:%d" % N_DET], env=env, capture_output=True,
                                text=True, timeout=300)
            line = [l for l in cp.stdout.splitlines() if l.startswith("DIGESTS ")]
            other = json.loads(line[0][8:]) if line else {}
            mine = {str(k): v for k, v in agg["digests"].items()}
            det_ok = bool(other) and all(other.get(k) == v for k, v in mine.items())
            if not det_ok:
                harness_errors.append("determinism sample diverged: %r vs %r" % (mine, other))
        except Exception as e:
            harness_errors.append("determinism sample failed: %r" % (e,))

    # ---- violations: group by key, known vs new, minimise + re-verify new ones
    known = load_known(mod.ID)
    by_key = {}
    for v in agg["viol"]:
        by_key.setdefault(v["key"], []).append(v)
    known_lines, viol_lines = [], []
    new_keys = 0
    for key in sorted(by_key):
        vs = by_key[key]
        e = match_known(known, key)
        if e is not None:
            known_lines.append((e["key"], "KNOWN-FINDING: property=%s %s [key=%s seen=%d]"
                                % (mod.ID, e["what_fails"], e["key"], len(vs))))
            continue
        new_keys += 1
        if new_keys > 8:
            viol_lines.append("VIOLATION property=%s replay=- (key=%s, not minimised: too many distinct keys)" % (mod.ID, key))
            continue
        # smallest first; a violation that does not reproduce in a fresh process (e.g. interpreter state carried over from an earlier run
        # of the same batch) is tried again with the next candidates of the same key before it is written off as a harness error
        cands = sorted(vs, key=lambda x: (len(json.dumps(x["case"], default=repr)), len(x["choices"])))[:60]
        ok = False
        for v in cands:
            if _reproduces(mod, v["case"], v["choices"], key) is None:
                continue
            case, ch, ok = minimise(mod, v["case"], v["choices"], key)
            if ok:
                break
        if not ok:
            harness_errors.append("violation key=%s (run %d and %d more of that key) did not reproduce in-process; not reported"
                                  % (key, cands[0]["index"], len(cands) - 1))
            continue
        got = _reproduces(mod, case, ch, key)
        res, msg = got
        path = write_replay(mod, tier, seed, v, case, ch, res.digest, msg)
        cp = subprocess.run([os.path.join(ROOT, "bin", "check"), mod.ID, "--replay", path],
                            capture_output=True, text=True, timeout=300,
                            env=dict(os.environ, VERIF_HASHSEED="777"))
        if cp.returncode == 1 and "VIOLATION property=%s" % mod.ID in cp.stdout:
            viol_lines.append("VIOLATION property=%s replay=%s" % (mod.ID, path))
            viol_lines.append("  key=%s seen=%d first_run=%d" % (key, len(vs), v["index"]))
            viol_lines.append("  " + msg[:600])
        else:
            harness_errors.append("violation key=%s did not replay in a fresh interpreter (rc=%s): %s"
                                  % (key, cp.returncode, cp.stdout[-300:]))
    seen_known = set()
    for k, line in known_lines:
        if k not in seen_known:
            seen_known.add(k)
            print(line)
    for e in known:
        if e.get("status") == "known" and e["key"] not in seen_known and e.get("expect_every_run"):
            print("NOTE: known finding not re-observed in this run: property=%s key=%s" % (mod.ID, e["key"]))
    for line in viol_lines:
        print(line)

    wall = time.time() - t0
    nviol = sum(1 for l in viol_lines if l.startswith("VIOLATION"))
    ev = {
        "property_id": mod.ID,
        "tier": tier,
        "seed": seed,
        "level": mod.LEVEL,
        "coverage": {
            "evaluations": agg["n"],
            "distinct_nontrivial": len(agg["shapes"]),
            "rule": mod.RULE,
            "samples": agg["samples"][:4] or ["(no sample)"],
            "distinct_interleavings": len(agg["shapes"]),
            "distinct_abstract_states": len(agg["states"]),
            "nontrivial_runs": agg["nontrivial"],
            "simulated_seconds": round(agg["sim_s"], 3),
            "simulated_steps": agg["steps"],
            "runs_per_hour": int(agg["n"] / max(wall, 1e-6) * 3600),
            "fault_fire_counts": dict(sorted(agg["faults"].items())),
            "probe_hits": dict(sorted(agg["probes"].items())),
            "components": getattr(mod, "COMPONENTS", {}),
            "determinism_sample_ok": det_ok,
            "harness_errors": n_err + len(harness_errors),
            "known_findings_seen": sorted(seen_known),
            "jobs": jobs,
            "exhaustive": bool(getattr(mod, "EXHAUSTIVE", False)),
        },
        "assumptions": list(getattr(mod, "ASSUMPTIONS", [])),
        "wall_s": round(wall, 2),
        "violations": nviol,
    }
    evdir = os.environ.get("GV_EVIDENCE_DIR") or os.path.join(ROOT, "evidence")
    os.makedirs(evdir, exist_ok=True)
    with open(os.path.join(evdir, mod.ID + ".json"), "w") as f:
        json.dump(ev, f, indent=1, sort_keys=True, default=repr)
    print("%s tier=%s seed=%d runs=%d distinct=%d states=%d sim_s=%.0f wall=%.1fs violations=%d known=%d errors=%d"
          % (mod.ID, tier, seed, agg["n"], len(agg["shapes"]), len(agg["states"]), agg["sim_s"],
             wall, nviol, len(seen_known), n_err + len(harness_errors)))
    if nviol:
        return 1
    if harness_errors:
        for h in harness_errors[:10]:
            print("HARNESS-ERROR " + h.replace("\n", "\n    "))
        return 2
    return 0
