"""simkit.gevent_shim — the handful of gevent primitives gunicorn.workers.ggevent.GeventWorker uses, on the simulated kernel,
so that the real GeventWorker.run() (heartbeat loop, graceful drain of the pool, stop) and the real AsyncWorker keep-alive loop with a
real timeout context execute.  Greenlets are simulated threads of the worker process (the baton scheduler already guarantees that only
one runs at a time, like a hub).  Fidelity assumptions (listed in evidence): Pool(size).spawn blocks while the pool is full;
StreamServer accepts only while the pool has a free slot and closes its listening socket on close(); stop(timeout) joins the pool for
`timeout` and then kills the remaining greenlets; Timeout(s, False) silently leaves the with-block when a blocking call inside it has
waited s seconds; SystemExit raised in any greenlet ends the process.
"""
import signal as _signal

from simkit import facade
from simkit.kernel import current_task, SimKilled


class GreenletExit(BaseException):
    pass


class Timeout(BaseException):
    """gevent.Timeout(seconds, exception) as a context manager (exception False/None semantics as in gevent)."""

    def __init__(self, seconds=None, exception=None):
        BaseException.__init__(self)
        self.seconds = seconds
        self.exception = exception
        self._prev = None
        self._task = None

    def __enter__(self):
        s, t, p = facade.ctx()
        self._task = t
        self._prev = (getattr(t, "timeout_at", None), getattr(t, "timeout_obj", None))
        if self.seconds is not None:
            at = s.now + self.seconds
            if self._prev[0] is None or at < self._prev[0]:
                t.timeout_at, t.timeout_obj = at, self
        return self

    def __exit__(self, typ, val, tb):
        t = self._task
        t.timeout_at, t.timeout_obj = self._prev
        if val is self and self.exception is False:
            return True
        return False


class Pool:
    def __init__(self, size=None):
        self.size = size
        self.tasks = []

    def _live(self):
        self.tasks = [t for t in self.tasks if t.state != "done"]
        return self.tasks

    def free_count(self):
        if self.size is None:
            return 1
        return max(0, self.size - len(self._live()))

    def spawn(self, fn, *args, **kw):
        s, t, p = facade.ctx()
        if self.size is not None and self.free_count() == 0:
            s.block(lambda: self.free_count() > 0, None, False, False)
        nt = s.new_task(p, lambda: fn(*args, **kw), "%s.g%d" % (p.name, len(p.tasks)), False)
        nt.greenlet = True
        p.coop = True
        self.tasks.append(nt)
        return nt

    def join(self, timeout=None):
        s, t, p = facade.ctx()
        s.block(lambda: not self._live(), timeout, True, False)      # handlers of the main greenlet run while it waits
        return not self._live()

    def kill(self, block=True, timeout=None):
        # gevent.pool.Group.kill: GreenletExit is raised in every member at the blocking call it is suspended in (a member that
        # catches it simply goes on), and the caller waits for them to finish
        s, t, p = facade.ctx()
        victims = [x for x in self._live() if x is not t]
        for x in victims:
            x.throw = GreenletExit()
            s.ev(p.name, "greenlet-kill", x.name)
        if block and victims:
            s.block(lambda: all(x.state == "done" or x.throw is None for x in victims), None, True, False)
            s.block(lambda: all(x.state == "done" for x in victims), timeout if timeout is not None else 1.0, True, False)


class Event:
    """gevent.event.Event: set() / wait(timeout) -> bool"""

    def __init__(self):
        self._flag = False

    def set(self):
        self._flag = True
        facade.sim().tick()

    def is_set(self):
        return self._flag

    def clear(self):
        self._flag = False

    def wait(self, timeout=None):
        s, t, p = facade.ctx()
        if not self._flag:
            s.block(lambda: self._flag, timeout, True, False)
        s.tick()
        return self._flag


class StreamServer:
    def __init__(self, listener, handle=None, spawn=None, **kw):
        self.socket = listener
        self._handle = handle
        self.pool = spawn
        self.max_accept = 100
        self.closed = False
        self.task = None

    def start(self):
        s, t, p = facade.ctx()
        self.task = s.new_task(p, self._accept_loop, "%s.acceptor" % p.name, False)
        self.task.greenlet = True
        p.coop = True

    def _accept_loop(self):
        s, t, p = facade.ctx()
        lst = self.socket
        while not self.closed:
            fd = lst.fd
            s.block(lambda: self.closed or (fd in p.fds and facade._readable(s, p, fd) and self.pool.free_count() > 0), None, False, False)
            if self.closed:
                return
            n = 0
            while n < self.max_accept and self.pool.free_count() > 0 and not self.closed:
                try:
                    lst.setblocking(False)
                    client, addr = lst.accept()
                except BlockingIOError:
                    break
                except OSError as e:
                    # gevent's BaseServer: EBADF / EINVAL / ENOTSOCK are fatal (the server closes), anything else is reported to the
                    # hub and accepting goes on after a short delay
                    import errno as _errno
                    if e.errno in (_errno.EBADF, _errno.EINVAL, _errno.ENOTSOCK):
                        return
                    s.block(lambda: False, 0.01, False, False)
                    break
                n += 1
                self.pool.spawn(self._handle, client, addr)

    def stop_accepting(self):
        """BaseServer.stop_accepting(): the accept watcher is stopped, the listening socket stays open"""
        self.closed = True

    def close(self):
        self.closed = True
        try:
            self.socket.close()
        except OSError:
            pass

    stop_timeout = 1          # gevent.baseserver.BaseServer.stop_timeout

    def stop(self, timeout=None):
        self.close()
        if timeout is None:
            timeout = self.stop_timeout
        self.pool.join(timeout)
        self.pool.kill(block=True, timeout=1)


class FakeGevent:
    __version__ = "23.0-sim"
    GreenletExit = GreenletExit
    Timeout = Timeout

    def sleep(self, seconds=0):
        s, t, p = facade.ctx()
        s.block(lambda: False, max(0.0, seconds), True, False)
        s.tick()

    def spawn(self, fn, *args, **kw):
        s, t, p = facade.ctx()
        nt = s.new_task(p, lambda: fn(*args, **kw), "%s.g%d" % (p.name, len(p.tasks)), False)
        nt.greenlet = True
        p.coop = True
        return nt

    def __getattr__(self, name):
        raise facade.SeamLeak("gevent.%s is not modelled by the shim" % name)


class FakeHub:
    def reinit(self):
        pass


class FakeMonkey:
    def patch_all(self, **kw):
        pass


class FakeGSocketModule:
    SOCK_STREAM = facade._socket.SOCK_STREAM

    def socket(self, family, type, fileno=None):
        s, t, p = facade.ctx()
        e = s.entry(p, fileno)
        return facade.SimSocket(fileno, e.ofd, family)


def install(seams_mod):
    """Patch gunicorn.workers.ggevent's namespace (idempotent)."""
    import gunicorn.workers.ggevent as gg
    if getattr(gg, "_sim_shim", False):
        return gg
    gg.gevent = FakeGevent()
    gg.Pool = Pool
    gg.StreamServer = StreamServer
    gg.Event = Event
    gg.hub = FakeHub()
    gg.monkey = FakeMonkey()
    gg.socket = FakeGSocketModule()
    gg.os = seams_mod.OS
    gg.time = seams_mod.TIME
    gg._sim_shim = True
    return gg
