"""simkit.seams — the single table of names replaced in gunicorn's module namespaces (DESIGN §2.1).

install_kernel_seams() is idempotent and process-wide (a check process runs one world only).  Nothing in
/repo is modified; the global os / socket / time modules stay untouched.
"""
import gunicorn.arbiter
import gunicorn.sock
import gunicorn.pidfile
import gunicorn.systemd
import gunicorn.util
import gunicorn.glogging
import gunicorn.workers.workertmp
import gunicorn.workers.base
import gunicorn.workers.sync
import gunicorn.workers.gthread
import gunicorn.workers.base_async
import gunicorn.http.wsgi

from simkit import facade

OS = facade.FakeOS()
SIGNAL = facade.FakeSignal()
SELECT = facade.FakeSelect()
TIME = facade.FakeTime()
SOCKET = facade.FakeSocketModule()
FCNTL = facade.FakeFcntl()
TEMPFILE = facade.FakeTempfile()
PWD = facade.FakePwd()
SELECTORS = facade.FakeSelectors()
FUTURES = facade.FakeFutures()


class FakeRandom:
    def random(self):
        s = facade.sim()
        return s.choices.choose(1000, "random") / 1000.0 if s.buggify.get("random_spawn_delay") else 0.5

    def seed(self, *a):
        pass

    def __getattr__(self, name):
        raise facade.SeamLeak("random.%s is not modelled" % name)


class FakeDatetime:
    @staticmethod
    def now():
        from datetime import datetime, timedelta
        s = facade.sim()
        return datetime(2023, 11, 14, 22, 13, 20) + timedelta(seconds=s.now)


def fake_randint(a, b):
    s = facade.sim()
    if b <= a:
        return a
    return a + s.choices.choose(b - a + 1, "randint")


TABLE = [
    (gunicorn.arbiter, {"os": OS, "select": SELECT, "signal": SIGNAL, "time": TIME, "random": FakeRandom(),
                        "print": (lambda *a, **k: None)}),
    (gunicorn.sock, {"os": OS, "socket": SOCKET, "time": TIME}),
    (gunicorn.pidfile, {"os": OS, "tempfile": TEMPFILE, "open": facade.fake_open}),
    (gunicorn.systemd, {"os": OS, "socket": SOCKET}),
    (gunicorn.util, {"os": OS, "fcntl": FCNTL, "time": TIME, "pwd": PWD, "_unlink": OS.unlink, "random": FakeRandom()}),
    (gunicorn.glogging, {"os": OS, "time": TIME}),
    (gunicorn.workers.workertmp, {"os": OS, "tempfile": TEMPFILE, "time": TIME}),
    (gunicorn.workers.base, {"os": OS, "signal": SIGNAL, "time": TIME, "randint": fake_randint, "datetime": FakeDatetime,
                             # the connection world (worlds.conn) stubs the heartbeat file; the kernel worlds always run the real one
                             "WorkerTmp": gunicorn.workers.workertmp.WorkerTmp}),
    (gunicorn.workers.sync, {"os": OS, "select": SELECT, "datetime": FakeDatetime}),
    (gunicorn.workers.gthread, {"os": OS, "selectors": SELECTORS, "time": TIME, "datetime": FakeDatetime,
                                "futures": FUTURES, "RLock": facade.SimRLock}),
    (gunicorn.workers.base_async, {"datetime": FakeDatetime}),
    (gunicorn.http.wsgi, {"os": OS}),
]
_done = False


def install_kernel_seams():
    global _done
    if _done:
        return
    for mod, names in TABLE:
        for n, v in names.items():
            setattr(mod, n, v)
    _done = True


def seam_table():
    return {m.__name__: sorted(n) for m, n in TABLE}
