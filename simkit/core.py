"""simkit.core — choices, event log, results.

Everything a run decides goes through one ``Choices`` object; everything a run does that is
visible to the oracle goes through one ``EventLog``.  Neither reads a clock nor draws from any
other PRNG, so (case, choice log) -> run is a pure function of the code under test.
"""
import hashlib
import random
from collections import Counter


RAISED = {"last": None}


class HarnessError(Exception):
    """Trouble in the machinery (never a VIOLATION).  Code under test may swallow exceptions (`except Exception` in
    the arbiter's main loop, `except BaseException` in the workers): every construction is remembered so that the runner
    reports the run as a harness error whatever happened to the exception object."""

    def __init__(self, *a):
        Exception.__init__(self, *a)
        RAISED["last"] = "%s: %s" % (type(self).__name__, " ".join(map(str, a)))


class Wedged(BaseException):
    """Raised by a simulated socket when the code under test loops without end on one connection (e.g. it keeps calling
    recv() on a socket that has been at EOF for a hundred calls).  The checks report it as a wedged worker."""


class SeamLeak(HarnessError):
    """gunicorn touched an effectful OS name the simulated kernel does not model."""


class StepCap(HarnessError):
    """A run exceeded its step/simulated-time cap."""


class Choices:
    """Source of every nondeterministic decision of one run.

    mode 'rng'   : decisions come from random.Random(seed) and are recorded.
    mode 'replay': decisions come from a list; when exhausted (or out of range) the answer is 0,
                   which by convention is always the *least eventful* option (keep running the same
                   task, no fault, largest read ...), so deleting entries simplifies a run.
    """

    __slots__ = ("rng", "src", "pos", "log", "limit")

    def __init__(self, seed=None, replay=None, limit=200000):
        self.rng = random.Random(seed) if replay is None else None
        self.src = list(replay) if replay is not None else None
        self.pos = 0
        self.log = []
        self.limit = limit

    def choose(self, n, tag=None):
        """Return an int in [0, n)."""
        if n <= 1:
            return 0
        if self.src is not None:
            if self.pos < len(self.src):
                v = self.src[self.pos]
                self.pos += 1
                if not (0 <= v < n):
                    v = 0
            else:
                v = 0
        else:
            v = self.rng.randrange(n)
        if len(self.log) >= self.limit:
            raise StepCap("choice log limit reached")
        self.log.append(v)
        return v

    def coin(self, num, den, tag=None):
        """True with probability num/den; 0 (False) is the default under replay exhaustion."""
        if num <= 0:
            return False
        return self.choose(den, tag) >= den - num

    def pick(self, seq, tag=None):
        return seq[self.choose(len(seq), tag)]


class EventLog:
    """Global, totally ordered record of kernel-visible events of one run.

    digest : rolling hash over every event (replay must reproduce it exactly)
    shape  : rolling hash over (actor, kind) only == the interleaving, abstracted from payloads
    """

    __slots__ = ("seq", "_h", "_s", "tail", "keep", "states")

    def __init__(self, keep=400):
        self.seq = 0
        self._h = hashlib.blake2b(digest_size=16)
        self._s = hashlib.blake2b(digest_size=8)
        self.tail = []
        self.keep = keep
        self.states = set()

    def add(self, actor, kind, detail=None):
        self.seq += 1
        rec = (self.seq, actor, kind, detail)
        self._h.update(repr(rec).encode("utf-8", "backslashreplace"))
        self._s.update(("%s|%s;" % (actor, kind)).encode())
        if len(self.tail) < self.keep:
            self.tail.append(rec)
        return self.seq

    def state(self, s):
        self.states.add(s)

    @property
    def digest(self):
        return self._h.hexdigest()

    @property
    def shape(self):
        return self._s.hexdigest()


class Result:
    """Outcome of one simulated run."""

    def __init__(self):
        self.violations = []      # [(key, message)]
        self.digest = ""
        self.shape = ""
        self.states = set()
        self.faults = Counter()
        self.probes = Counter()
        self.sim_s = 0.0
        self.nontrivial = True
        self.sample = None
        self.steps = 0

    def violate(self, key, msg):
        for k, _ in self.violations:
            if k == key:
                return
        self.violations.append((key, msg))

    def from_log(self, log):
        self.digest = log.digest
        if not self.shape:
            self.shape = log.shape
        self.states |= log.states
        self.steps = log.seq
        return self


def h64(*parts):
    h = hashlib.blake2b(digest_size=8)
    for p in parts:
        h.update(repr(p).encode("utf-8", "backslashreplace"))
        h.update(b"\0")
    return h.hexdigest()


def derive_seed(master_seed, prop, index):
    d = hashlib.sha256(("%d:%s:%d" % (master_seed, prop, index)).encode()).digest()
    return int.from_bytes(d[:8], "big")


def bsafe(b, limit=200):
    """JSON-friendly rendering of bytes (latin-1 with escapes), truncated."""
    if isinstance(b, (bytes, bytearray)):
        s = bytes(b[:limit]).decode("latin-1").encode("unicode_escape").decode("ascii")
        return s + ("...(+%d)" % (len(b) - limit) if len(b) > limit else "")
    return b


def b2j(b):
    """bytes -> JSON string, lossless (latin-1)."""
    return bytes(b).decode("latin-1")


def j2b(s):
    return s.encode("latin-1")
