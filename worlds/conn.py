"""W2 — the connection world: the real per-connection code of all three worker families
(SyncWorker.handle/handle_request, ThreadWorker.handle/handle_request, AsyncWorker.handle/handle_request,
Worker.handle_error, gunicorn.http.wsgi, util.write*, glogging.Logger.access/atoms) serving one simulated
connection, with a fault injectable at any I/O operation.  Single-threaded: the schedule here is the
segmentation of reads and the I/O operation index at which the peer disappears.

Seams (names replaced in gunicorn's own module namespaces, nothing in /repo changes):
  gunicorn.util.time, gunicorn.glogging.time            -> simulated clock
  gunicorn.workers.{base,sync,gthread,base_async}.datetime -> simulated datetime.now
  gunicorn.workers.base.WorkerTmp / randint             -> in-memory heartbeat stub / seeded randint
  gunicorn.http.wsgi.os                                 -> lseek/fstat over in-memory files, per-run environ
"""
import contextlib
import errno
import io
import logging
import os as _real_os
import time as _real_time
from datetime import datetime as _real_datetime, timedelta

import gunicorn.util
import gunicorn.glogging
import gunicorn.http.wsgi
import gunicorn.workers.base
import gunicorn.workers.sync
import gunicorn.workers.gthread
import gunicorn.workers.base_async
from gunicorn.config import Config
from gunicorn.workers.sync import SyncWorker
from gunicorn.workers.gthread import ThreadWorker, TConn
from gunicorn.workers.base_async import AsyncWorker

from simkit.core import HarnessError, SeamLeak, Wedged


# ----------------------------------------------------------------------------- simulated clock
class SimClock:
    def __init__(self):
        self.t = 1_700_000_000.0

    def reset(self):
        self.t = 1_700_000_000.0


CLOCK = SimClock()


class FakeTime:
    """Stands in for the `time` module inside gunicorn.util / gunicorn.glogging."""

    def time(self):
        CLOCK.t += 0.001
        return CLOCK.t

    def monotonic(self):
        CLOCK.t += 0.001
        return CLOCK.t - 1_600_000_000.0

    def sleep(self, s):
        CLOCK.t += max(0.0, s)

    def strftime(self, fmt, t=None):
        return _real_time.strftime(fmt, _real_time.gmtime(CLOCK.t) if t is None else t)

    def __getattr__(self, name):
        if name in ("gmtime", "struct_time", "mktime", "timezone", "altzone", "daylight", "tzname", "localtime"):
            return getattr(_real_time, name)
        raise SeamLeak("time.%s used by gunicorn is not modelled" % name)


class FakeDatetime:
    """Stands in for `datetime.datetime` (only .now() is used by the workers)."""

    @staticmethod
    def now():
        CLOCK.t += 0.0005
        return _real_datetime(2023, 11, 14, 22, 13, 20) + timedelta(seconds=CLOCK.t - 1_700_000_000.0)


class FakeTmp:
    def __init__(self, cfg):
        self.beats = 0

    def notify(self):
        self.beats += 1

    def last_update(self):
        return CLOCK.t

    def fileno(self):
        return 999

    def close(self):
        pass


class SimFileNoClose:
    """In-memory file with an optional file descriptor number (for the sendfile path)."""

    BUFSIZE = 8192

    def __init__(self, content, offset=0, with_fileno=True, fd=None, sniff=0):
        """`sniff` > 0 models what open(path, 'rb') gives an application that looks at the first bytes and rewinds: a BUFFERED reader.
        Its logical position (tell(), where read() continues) and the position of the descriptor underneath (what lseek(fd, 0, SEEK_CUR)
        reports and os.sendfile would start from) differ as soon as something was read: the descriptor runs ahead by the read-ahead."""
        self.content = content
        self.fd = fd
        self.with_fileno = with_fileno
        self.closed = 0
        self.reads = 0
        self.buffered = bool(sniff)
        self.pos = 0
        self.raw = 0                 # position of the descriptor
        self.bstart = 0              # the read-ahead buffer covers content[bstart:raw]
        if sniff:
            self.read(sniff)
            self.reads = 0
        self.seek(offset)

    def read(self, n=-1):
        self.reads += 1
        if n is None or n < 0:
            out = self.content[self.pos:]
        else:
            out = self.content[self.pos:self.pos + n]
        if self.buffered:
            need = self.pos + len(out)
            if need > self.raw or not out:
                if self.pos >= self.raw:
                    self.bstart = self.pos
                self.raw = min(len(self.content), max(self.raw, self.pos + max(len(out), self.BUFSIZE)))
        self.pos += len(out)
        if not self.buffered:
            self.raw = self.pos
        return out

    def seek(self, pos, whence=0):
        if whence == 1:
            pos += self.pos
        elif whence == 2:
            pos += len(self.content)
        if self.buffered and self.bstart <= pos <= self.raw and self.raw > self.bstart:
            self.pos = pos           # inside the read-ahead: the descriptor does not move
        else:
            self.pos = self.raw = self.bstart = pos
        return self.pos

    def tell(self):
        return self.pos

    def fileno(self):
        if not self.with_fileno:
            raise io.UnsupportedOperation("fileno")
        return self.fd


class SimFile(SimFileNoClose):
    def close(self):
        self.closed += 1


class FakeOS:
    """Stands in for `os` inside gunicorn.http.wsgi: lseek/fstat over SimFiles, per-run environ."""
    SEEK_CUR = _real_os.SEEK_CUR
    SEEK_SET = _real_os.SEEK_SET
    SEEK_END = _real_os.SEEK_END

    def __init__(self):
        self.files = {}
        self.environ = {}
        self.fail = {}      # "lseek" / "fstat" -> errno to raise
        self.fired = []

    def reset(self):
        self.files.clear()
        self.environ = {}
        self.fail = {}
        self.fired = []

    def lseek(self, fd, pos, how):
        f = self.files.get(fd)
        if f is None:
            raise OSError(errno.EBADF, "bad simulated fd")
        if "lseek" in self.fail and how == self.SEEK_CUR:
            self.fired.append("lseek")
            raise OSError(self.fail["lseek"], "injected lseek failure")
        # the descriptor's own position (identical to the object's for an unbuffered file)
        if how == self.SEEK_CUR:
            f.raw += pos
        elif how == self.SEEK_SET:
            f.raw = pos
        else:
            f.raw = len(f.content) + pos
        if not f.buffered or pos or how != self.SEEK_CUR:
            f.pos = f.bstart = f.raw
        return f.raw

    def fstat(self, fd):
        f = self.files.get(fd)
        if f is None:
            raise OSError(errno.EBADF, "bad simulated fd")
        if "fstat" in self.fail:
            self.fired.append("fstat")
            raise OSError(self.fail["fstat"], "injected fstat failure")
        return _real_os.stat_result((0o100644, 1, 1, 1, 0, 0, len(f.content), 0, 0, 0))

    def __getattr__(self, name):
        raise SeamLeak("os.%s used by gunicorn.http.wsgi is not modelled" % name)


FAKE_OS = FakeOS()
FAKE_TIME = FakeTime()
_installed = False
_RAND = {"next": 0}


def fake_randint(a, b):
    v = _RAND["next"]
    return min(max(a, v), b)


def install():
    global _installed
    if _installed:
        return
    gunicorn.util.time = FAKE_TIME
    gunicorn.glogging.time = FAKE_TIME
    for m in (gunicorn.workers.base, gunicorn.workers.sync, gunicorn.workers.gthread, gunicorn.workers.base_async):
        m.datetime = FakeDatetime
    gunicorn.workers.base.WorkerTmp = FakeTmp
    gunicorn.workers.base.randint = fake_randint
    gunicorn.http.wsgi.os = FAKE_OS
    _installed = True


# ----------------------------------------------------------------------------- the connection
OPS_CAP = 400000
EOF_RECV_CAP = 100

FAULT_ERRNO = {"EOF": None, "ECONNRESET": errno.ECONNRESET, "EPIPE": errno.EPIPE, "ENOTCONN": errno.ENOTCONN}


class SimSock:
    """Server end of one simulated TCP/unix connection.

    data/cuts : what the peer sends and how the network segments it (as worlds.stream.CutSock)
    fault_at  : index of the I/O operation (recv/send/sendall/sendfile/shutdown) at which the peer
                disappears; fault_kind decides how that shows: EOF (recv -> b'', writes -> EPIPE),
                ECONNRESET / EPIPE / ENOTCONN (that errno from this and every later operation)
    wire      : every byte the server wrote, in order
    """

    def __init__(self, data, cuts=(), peer=("10.0.0.9", 40000), name=("127.0.0.1", 8000),
                 fault_at=None, fault_kind="EOF", choices=None, short_send=False, silence=None):
        self.silence = silence   # seconds the peer stays silent (connected, sending nothing) once its data is used up, before it half-closes
        self.data = data
        self.cuts = list(cuts)
        self.ci = 0
        self.pos = 0
        self.peer = peer
        self.name = name
        self.wire = bytearray()
        self.ops = []
        self.fault_at = fault_at
        self.fault_kind = fault_kind
        self.dead = False
        self.fault_fired = None
        self.closed = 0
        self.shut = None
        self.blocking = True
        self.choices = choices
        self.short_send = short_send
        self.wire_at_fault = None
        self.recv_after = []     # wire length at every recv: lets the oracle see "read again after response"

    # -- bookkeeping
    def _op(self, kind, size=0):
        k = len(self.ops)
        if k >= OPS_CAP:
            # the per-connection code does not terminate (e.g. it keeps reading a socket that is at EOF): abort the run;
            # the checks report this as a wedged worker
            raise Wedged("more than %d I/O operations on one connection" % OPS_CAP)
        self.ops.append((kind, size))
        if self.closed:
            raise OSError(errno.EBADF, "operation on closed simulated socket")
        if self.fault_at is not None and k >= self.fault_at and not self.dead:
            self.dead = True
            self.fault_fired = (k, kind)
            self.wire_at_fault = len(self.wire)
        if self.dead:
            code = FAULT_ERRNO[self.fault_kind]
            if code is None:
                if kind == "recv":
                    return "eof"
                raise BrokenPipeError(errno.EPIPE, "peer closed (simulated)")
            if code == errno.ECONNRESET:
                raise ConnectionResetError(code, "reset by peer (simulated)")
            if code == errno.EPIPE:
                raise BrokenPipeError(code, "broken pipe (simulated)")
            raise OSError(code, "not connected (simulated)")
        return None

    # -- socket API used by gunicorn
    def _eof(self):
        self.eof_recvs = getattr(self, "eof_recvs", 0) + 1
        if self.eof_recvs > EOF_RECV_CAP:
            raise Wedged("recv() called %d times on a connection that is at end of file" % self.eof_recvs)
        return b""

    def recv(self, n):
        if self._op("recv", n) == "eof":
            return self._eof()
        self.recv_after.append(len(self.wire))
        if not self.blocking and self.pos < len(self.data) and self.pos >= getattr(self, "avail", len(self.data)):
            # a non-blocking socket does not wait for the peer's next segment (only the threaded worker ever switches a connection to
            # non-blocking, while it is parked in the poller: it must switch it back before a handler thread reads from it)
            raise BlockingIOError(errno.EAGAIN, "Resource temporarily unavailable (simulated non-blocking recv)")
        if self.pos >= len(self.data):
            if self.silence:
                # the reader waits: time passes, and a keep-alive timeout armed around this read (async workers) fires here
                wait, self.silence = self.silence, None
                pause(wait)
            return self._eof()
        while self.ci < len(self.cuts) and self.cuts[self.ci] <= self.pos:
            self.ci += 1
        stop = self.cuts[self.ci] if self.ci < len(self.cuts) else len(self.data)
        stop = min(stop, self.pos + n, len(self.data))
        out = self.data[self.pos:stop]
        self.pos = stop
        return out

    def send(self, data):
        self._op("send", len(data))
        n = len(data)
        if self.short_send and self.choices is not None and n > 1:
            n = n - self.choices.choose(n)        # 0 => everything
        self.wire += data[:n]
        return n

    def sendall(self, data):
        self._op("sendall", len(data))
        self.wire += data

    def segment_arrived(self):
        """the poller reported the socket readable: the peer's next segment (up to the next cut) is in the receive buffer"""
        nxt = [c for c in self.cuts if c > self.pos]
        self.avail = nxt[0] if nxt else len(self.data)

    def sendfile(self, file, offset=0, count=None):
        if not self.blocking:
            raise ValueError("non-blocking sockets are not supported")      # as socket.sendfile() does
        self._op("sendfile", count or 0)
        content = file.content
        end = len(content) if count is None else min(len(content), offset + count)
        out = content[offset:end]
        self.wire += out
        file.pos = offset + len(out)
        return len(out)

    def shutdown(self, how):
        self._op("shutdown")
        self.shut = how

    def close(self):
        self.closed += 1

    def setblocking(self, flag):
        self.blocking = bool(flag)

    def settimeout(self, t):
        self.blocking = t is None or t > 0

    def gettimeout(self):
        return None if self.blocking else 0.0

    def getsockname(self):
        return self.name

    def getpeername(self):
        return self.peer

    def fileno(self):
        if self.closed:
            return -1
        return 77

    def unread(self):
        return len(self.data) - self.pos


class Listener:
    def __init__(self, name):
        self.name = name

    def getsockname(self):
        return self.name


# ----------------------------------------------------------------------------- log capture
class Capture(logging.Handler):
    def __init__(self):
        logging.Handler.__init__(self)
        self.records = []

    def emit(self, record):
        try:
            self.records.append((record.levelname, record.getMessage()))
        except Exception as e:      # formatting error inside the logging call
            self.records.append(("FORMAT-ERROR", repr(e)))


ACCESS = Capture()
ERRORS = Capture()


def make_logger(cfg):
    log = gunicorn.glogging.Logger(cfg)
    for lg, cap in ((log.access_log, ACCESS), (log.error_log, ERRORS)):
        for h in list(lg.handlers):
            lg.removeHandler(h)
        lg.addHandler(cap)
    log.error_log.setLevel(logging.DEBUG)
    return log


# ----------------------------------------------------------------------------- the application
class AppFailure(Exception):
    pass


class AppState:
    """What the generated application observed (the oracle's view from inside)."""

    def __init__(self):
        self.calls = 0
        self.environs = []
        self.completed = 0
        self.closed = 0
        self.sr_errors = []
        self.outputs = []      # per call: list of chunks the app produced (yielded / written)
        self.read_bodies = []
        self.files = []
        self.failed = set()    # indices of application calls that actually raised


def make_app(programs, state):
    """programs: list of program dicts, one per request on the connection (last one repeats)."""

    def app(environ, start_response):
        idx = state.calls
        state.calls += 1
        prog = programs[min(idx, len(programs) - 1)]
        env_copy = {k: v for k, v in environ.items() if isinstance(v, (str, bytes, int, tuple, bool))}
        state.environs.append(env_copy)
        produced = []
        state.outputs.append(produced)

        def boom(msg):
            state.failed.add(idx)
            return AppFailure(msg)

        fail = prog.get("fail")
        rb = prog.get("read_body", "none")
        if rb == "all":
            state.read_bodies.append(environ["wsgi.input"].read())
        elif rb == "some":
            state.read_bodies.append(environ["wsgi.input"].read(3))
        else:
            state.read_bodies.append(None)
        if fail == "before_sr":
            raise boom("before start_response")
        headers = [(n, v) for n, v in prog.get("headers", [])]
        first = prog.get("first_sr")
        try:
            if first:
                # PEP 3333: an application may call start_response again, with exc_info, as long as nothing was sent: the new status and
                # headers REPLACE the earlier ones (the error-handler idiom).  status/headers of the program describe the final call
                import sys as _sys
                start_response(first["status"], [(n, v) for n, v in first.get("headers", [])])
                try:
                    raise AppFailure("replaced")
                except AppFailure:
                    write = start_response(prog["status"], headers, _sys.exc_info())
            else:
                write = start_response(prog["status"], headers)
        except Exception as e:
            state.sr_errors.append(type(e).__name__)
            if not prog.get("catch_refusal"):
                raise
            # an application (or middleware) that catches the refusal and returns its body all the same
            write = None
        second = prog.get("second_sr")
        if fail == "after_sr":
            raise boom("after start_response")
        kind = prog.get("kind", "iter")
        chunks = [c.encode("latin-1") for c in prog.get("chunks", [])]
        if prog.get("head_aware") and environ.get("REQUEST_METHOD") == "HEAD":
            chunks = []        # a well-behaved application sends no body in answer to HEAD

        def late_sr():
            if second:
                import sys
                try:
                    raise AppFailure("late")
                except AppFailure:
                    ei = sys.exc_info() if second.get("exc_info") else None
                try:
                    start_response(second["status"], [(n, v) for n, v in second.get("headers", [])], ei) \
                        if ei else start_response(second["status"], [(n, v) for n, v in second.get("headers", [])])
                except BaseException as e:
                    state.sr_errors.append(type(e).__name__)
                    if second.get("swallow") and isinstance(e, Exception):
                        return      # an application (or middleware) that catches what start_response re-raised and goes on
                    raise

        if second and second.get("when") == "before_write":
            late_sr()

        delays = prog.get("delays") or []

        def wait_before(i):
            if i < len(delays) and delays[i]:
                pause(delays[i])

        if kind == "write":
            for i, c in enumerate(chunks):
                if fail == "chunk:%d" % i:
                    raise boom("in write %d" % i)
                wait_before(i)
                write(c)
                produced.append(c)
                if second and second.get("when") == "after_write" and i == 0:
                    late_sr()
            if fail == "end":
                raise boom("after the last write")
            state.completed += 1
            return Closer([], state, fail, idx)
        if kind == "file" and prog.get("head_aware") and environ.get("REQUEST_METHOD") == "HEAD":
            state.completed += 1
            return Closer([], state, fail, idx)
        if kind == "file":
            fspec = prog["file"]
            fd = 1000 + len(FAKE_OS.files)
            fcls = SimFile if fspec.get("has_close", True) else SimFileNoClose
            f = fcls(fspec["content"].encode("latin-1"), fspec.get("offset", 0), fspec.get("fileno", True), fd, fspec.get("sniff", 0))
            if fspec.get("fileno", True):
                FAKE_OS.files[fd] = f
            state.files.append(f)
            for c in prog.get("pre_write", []):
                write(c.encode("latin-1"))
                produced.append(c.encode("latin-1"))
            produced.append(f.content[f.pos:])
            state.completed += 1
            return environ["wsgi.file_wrapper"](f, fspec.get("blksize", 8192))

        def gen():
            if rb == "late":
                # flush the head with an empty first chunk, read the request body only afterwards
                yield b""
                try:
                    state.read_bodies[-1] = environ["wsgi.input"].read()
                except BaseException:
                    state.failed.add(idx)       # the request body was broken: the application fails after the head was sent
                    raise
            for i, c in enumerate(chunks):
                if fail == "chunk:%d" % i:
                    raise boom("in chunk %d" % i)
                wait_before(i)
                produced.append(c)
                yield c
                if second and second.get("when") == "after_write" and i == 0:
                    late_sr()
            if fail == "end":
                raise boom("at end of iteration")
            state.completed += 1
        if kind == "list":
            for i, c in enumerate(chunks):
                produced.append(c)
            state.completed += 1
            return list(chunks)
        return Closer(gen(), state, fail, idx)

    return app


class Closer:
    def __init__(self, it, state, fail, idx=0):
        self.it = iter(it)
        self.state = state
        self.fail = fail
        self.idx = idx

    def __iter__(self):
        return self.it

    def close(self):
        self.state.closed += 1
        if self.fail == "close":
            self.state.failed.add(self.idx)
            raise AppFailure("in close()")


# ----------------------------------------------------------------------------- workers
class _TimeoutFired(BaseException):
    """gevent.Timeout / eventlet.Timeout derive from BaseException."""

    def __init__(self, ctx):
        BaseException.__init__(self)
        self.ctx = ctx


TIMEOUTS = []      # armed simulated timeout contexts of the connection being served (innermost last)


class SimTimeoutCtx:
    """Timeout(seconds, False): fires at the first switch point (pause()) at or after its deadline and silently leaves the with-block."""

    def __init__(self, seconds):
        self.seconds = seconds
        self.deadline = None

    def __enter__(self):
        self.deadline = None if self.seconds is None else CLOCK.t + self.seconds
        TIMEOUTS.append(self)
        return self

    def __exit__(self, typ, val, tb):
        if self in TIMEOUTS:
            TIMEOUTS.remove(self)
        return isinstance(val, _TimeoutFired) and val.ctx is self


def pause(seconds):
    """A point at which the calling green thread waits `seconds` (application sleeping / waiting for its own I/O): time passes, and an
    armed timeout whose deadline is reached fires here.  For the sync and threaded families it only advances the clock."""
    if seconds <= 0:
        return
    due = [c for c in TIMEOUTS if c.deadline is not None and c.deadline <= CLOCK.t + seconds]
    if due:
        first = min(due, key=lambda c: c.deadline)
        CLOCK.t = max(CLOCK.t, first.deadline)
        raise _TimeoutFired(first)
    CLOCK.t += seconds


class SimAsyncWorker(AsyncWorker):
    """The class-independent real code of the gevent/eventlet family with a simulated timeout context."""

    def timeout_ctx(self):
        return SimTimeoutCtx(self.cfg.keepalive or None)


class DummyApp:
    def __init__(self, fn):
        self.fn = fn

    def wsgi(self):
        return self.fn


FAMILIES = ("sync", "gthread", "async")
_CFG_CACHE = {}


def make_cfg(**kw):
    key = tuple(sorted((k, repr(v)) for k, v in kw.items()))
    c = _CFG_CACHE.get(key)
    if c is None:
        c = Config()
        c.set("accesslog", "-")
        for k, v in kw.items():
            c.set(k, v)
        if len(_CFG_CACHE) > 256:
            _CFG_CACHE.clear()
        _CFG_CACHE[key] = c
    return c


def make_worker(family, cfg, app_fn, name=("127.0.0.1", 8000), jitter_draw=0):
    install()
    _RAND["next"] = jitter_draw
    log = make_logger(cfg)
    cls = {"sync": SyncWorker, "gthread": ThreadWorker, "async": SimAsyncWorker}[family]
    w = cls(1, 1, [Listener(name)], DummyApp(app_fn), 15, cfg, log)
    w.wsgi = app_fn
    w.pid = 4242
    return w


def reset_run():
    CLOCK.reset()
    del TIMEOUTS[:]
    FAKE_OS.reset()
    ACCESS.records.clear()
    ERRORS.records.clear()


def serve(worker, family, sock, max_dispatch=16):
    """Serve one connection with the real per-connection code.  Returns the exception that escaped, if any."""
    listener = worker.sockets[0]
    addr = sock.peer
    try:
        if family in ("sync", "async"):
            worker.handle(listener, sock, addr)
        else:
            conn = TConn(worker.cfg, sock, addr, listener.getsockname())
            worker.nr_conns += 1
            for _ in range(max_dispatch):
                # what the poller thread does when the socket is readable: enqueue_req -> conn.init() -> handle
                if hasattr(sock, "segment_arrived"):
                    sock.segment_arrived()
                conn.init()
                keepalive, conn2 = worker.handle(conn)
                if keepalive and worker.alive:
                    # finish_request re-arms the connection; it is dispatched again once readable
                    # (data pending, or EOF which is also a readable event)
                    conn.sock.setblocking(False)
                    conn.set_timeout()
                    continue
                worker.nr_conns -= 1
                conn.close()
                break
            else:
                raise HarnessError("gthread driver: dispatch cap reached")
    except HarnessError:
        raise
    except BaseException as e:
        return e
    return None
