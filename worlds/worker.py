"""W3 — the worker world: the real SyncWorker.run() / ThreadWorker.run() main loops and handler threads (and all the
per-connection code W2 runs) as a simulated process on the simulated kernel, with scripted client actors.

Real: Worker.__init__ / init_process / init_signals / handle_exit|quit|abort, SyncWorker.run/run_for_one/run_for_multiple/
wait/accept/handle/handle_request, ThreadWorker.run/accept/on_client_socket_readable/enqueue_req/murder_keepalived/
finish_request/handle/handle_request, WorkerTmp, sock.create_sockets, gunicorn.http.*.
Stub: kernel, selector, executor/futures, RLock, clients, the parent process (a dummy that just lives or dies).
"""
import sys

from gunicorn.config import Config
from gunicorn import sock as gsock
from gunicorn.workers.sync import SyncWorker
from gunicorn.workers.gthread import ThreadWorker

from simkit import facade, seams
from simkit.core import HarnessError  # noqa: re-exported
from simkit.kernel import Sim, current_task, SimKilled
from worlds.master import SimLogger, Cap


class EvThreadWorker(ThreadWorker):
    """The real ThreadWorker; overrides only emit simulator events around the real methods."""
    _w3 = None

    def handle(self, conn):
        s = facade.sim()
        me = current_task()
        fd = conn.sock.fd
        s.ev(me.name, "handle-begin", fd)
        self._w3.active[id(conn)] = me
        try:
            return super().handle(conn)
        finally:
            self._w3.active.pop(id(conn), None)
            s.ev(me.name, "handle-end", fd)

    def finish_request(self, fs):
        s = facade.sim()
        me = current_task()
        if not me.is_main:
            s.probe("finish_request_on_pool_thread")
        else:
            s.probe("finish_request_on_poller_thread")
        r = super().finish_request(fs)
        conn = getattr(fs, "conn", None)
        if conn is not None and conn in self._keep:
            self._w3.armed[conn.sock.fd, id(conn.sock.ofd)] = (s.now, conn.timeout)
            s.ev(me.name, "keepalive-armed", conn.sock.fd)
        return r

    def murder_keepalived(self):
        self._w3.in_murder = True
        try:
            return super().murder_keepalived()
        finally:
            self._w3.in_murder = False


class EvSyncWorker(SyncWorker):
    def handle(self, listener, client, addr):
        s = facade.sim()
        s.ev(current_task().name, "handle-begin", client.fd)
        try:
            return super().handle(listener, client, addr)
        finally:
            s.ev(current_task().name, "handle-end", client.fd)


def gevent_worker_class():
    """The real GeventWorker on the gevent shim (simkit.gevent_shim); overrides only emit simulator events."""
    from simkit import gevent_shim
    gg = gevent_shim.install(seams)

    class EvGeventWorker(gg.GeventWorker):
        def handle(self, listener, client, addr):
            s = facade.sim()
            s.ev(current_task().name, "handle-begin", client.fd)
            try:
                return super().handle(listener, client, addr)
            finally:
                s.ev(current_task().name, "handle-end", client.fd)
    return EvGeventWorker


def eventlet_worker_class():
    """The real EventletWorker on the eventlet shim (simkit.eventlet_shim); overrides only emit simulator events."""
    from simkit import eventlet_shim
    ge = eventlet_shim.install(seams)

    class EvEventletWorker(ge.EventletWorker):
        def handle(self, listener, client, addr):
            s = facade.sim()
            s.ev(current_task().name, "handle-begin", client.fd)
            try:
                return super().handle(listener, client, addr)
            finally:
                s.ev(current_task().name, "handle-end", client.fd)
    return EvEventletWorker


def worker_class(kind):
    if kind == "gevent":
        return gevent_worker_class()
    if kind == "eventlet":
        return eventlet_worker_class()
    return {"sync": EvSyncWorker, "gthread": EvThreadWorker}[kind]


class Client:
    """A scripted peer: runs as a task of the pseudo-process 'clients'."""

    def __init__(self, world, name, script, addr=None):
        self.world, self.name, self.script = world, name, script
        self.addr = addr
        self.stream = None
        self.log = []          # (time, what, detail)
        self.responses = []
        self.buf = bytearray()
        self.refused = 0
        self.reset = 0
        self.eof_at = None
        self.connected_at = None
        self.sent_at = []
        self.done = False

    def note(self, what, detail=None):
        s = self.world.sim
        self.log.append((round(s.now, 4), what, detail))
        s.ev(self.name, "cli-" + what, detail)

    def run(self):
        s = self.world.sim
        try:
            for op in self.script:
                k = op[0]
                if k == "wait":
                    s.block(lambda: False, op[1], False, False)
                elif k == "connect":
                    try:
                        self.stream = s.connect(self.addr or self.world.addr, self.name)
                        self.connected_at = s.now
                        self.note("connected")
                    except ConnectionRefusedError:
                        self.refused += 1
                        self.note("refused")
                        return
                elif k == "send":
                    if self.stream is None:
                        return
                    st = self.stream
                    if st.rst or (st.peer.closed and False):
                        self.note("send-on-reset")
                        return
                    data = op[1].encode("latin-1")
                    if st.peer.closed:
                        st.rst = True
                        self.reset += 1
                        self.note("send-failed")
                        return
                    st.peer.rbuf += data
                    self.sent_at.append(s.now)
                    self.note("sent", len(data))
                    s.tick()
                elif k == "recv":
                    # read one response (Content-Length or close delimited), give up after op[1] simulated seconds
                    r = self.read_response(op[1])
                    self.responses.append(r)
                    self.note("response", (r["status"], r["complete"], len(r["body"])))
                    if r["status"] is None:
                        return
                elif k == "close":
                    self.close()
                elif k == "shutdown-wr":
                    # half-close: the server reads end-of-file after what was sent, the client keeps reading
                    st = self.stream
                    if st is not None and not st.closed and st.peer is not None:
                        st.peer.eof = True
                        self.note("half-closed")
                        s.tick()
                elif k == "reset":
                    self.do_reset()
                elif k == "await-eof":
                    st = self.stream
                    if st is None:
                        return
                    w = s.block(lambda: st.eof or st.rst, op[1], False, False)
                    if st.eof or st.rst:
                        self.eof_at = s.now
                        # what the server still wrote before it closed, although every request of this client had been answered
                        self.trailing = bytes(self.buf) + bytes(st.rbuf)
                        self.note("eof")
                    else:
                        self.note("no-eof")
        finally:
            self.done = True

    def close(self):
        st = self.stream
        if st is not None and not st.closed:
            st.closed = True
            if st.rbuf and st.peer is not None:
                st.peer.rst = True
            if st.peer is not None:
                st.peer.eof = True
            self.note("closed")
            self.world.sim.tick()

    def do_reset(self):
        st = self.stream
        if st is not None and not st.closed:
            st.closed = True
            if st.peer is not None:
                st.peer.rst = True
                st.peer.eof = True
            self.note("reset")
            self.world.sim.tick()

    def read_response(self, timeout):
        s = self.world.sim
        st = self.stream
        r = {"status": None, "complete": False, "body": b"", "head": b"", "at": None, "eof": False, "rst": False, "first_at": None}
        deadline = s.now + timeout
        buf = self.buf

        def pull():
            if st.rbuf:
                buf.extend(st.rbuf)
                del st.rbuf[:]
                if r["first_at"] is None:
                    r["first_at"] = s.now
        while True:
            pull()
            he = buf.find(b"\r\n\r\n")
            if he >= 0:
                head = bytes(buf[:he])
                lines = head.split(b"\r\n")
                try:
                    r["status"] = int(lines[0].split(b" ")[1])
                except Exception:
                    r["status"] = -1
                r["head"] = head
                hs = {}
                for ln in lines[1:]:
                    if b":" in ln:
                        n, v = ln.split(b":", 1)
                        hs[n.strip().lower()] = v.strip()
                r["headers"] = hs
                body = bytes(buf[he + 4:])
                if b"content-length" in hs:
                    n = int(hs[b"content-length"])
                    if len(body) >= n:
                        r["body"] = body[:n]
                        r["complete"] = True
                        r["at"] = s.now
                        del buf[:he + 4 + n]
                        return r
                elif hs.get(b"transfer-encoding", b"").lower() == b"chunked":
                    dec, used = _dechunk(body)
                    if dec is not None:
                        r["body"] = dec
                        r["complete"] = True
                        r["at"] = s.now
                        del buf[:he + 4 + used]
                        return r
                elif st.eof or st.rst:
                    r["body"] = body
                    r["complete"] = st.eof and not st.rst
                    r["at"] = s.now
                    del buf[:]
                    return r
            if st.rst or (st.eof and not st.rbuf):
                r["eof"], r["rst"] = st.eof, st.rst
                r["body"] = bytes(buf[he + 4:]) if he >= 0 else b""
                if st.rst:
                    self.reset += 1
                return r
            left = deadline - s.now
            if left <= 0:
                r["timeout"] = True
                return r
            s.block(lambda: bool(st.rbuf) or st.eof or st.rst, left, False, False)


def _dechunk(b):
    out = bytearray()
    p = 0
    while True:
        e = b.find(b"\r\n", p)
        if e < 0:
            return None, 0
        try:
            n = int(b[p:e].split(b";")[0], 16)
        except ValueError:
            return None, 0
        p = e + 2
        if n == 0:
            if b[p:p + 2] == b"\r\n":
                return bytes(out), p + 2
            return None, 0
        if len(b) < p + n + 2:
            return None, 0
        out += b[p:p + n]
        p += n + 2


class AppHost:
    """The generated application shared by the worker and master worlds: behaviour chosen by the request path."""

    def __init__(self, sim):
        self.sim = sim
        self.requests = []
        self.app_calls = 0
        self.app_done = 0

    def app(self, environ, start_response):
        s = self.sim
        path = environ.get("PATH_INFO", "/")
        self.app_calls += 1
        n = self.app_calls
        self.requests.append((s.now, path, current_task().name))
        s.ev(current_task().name, "app-begin", path)
        if path.startswith("/sleep/"):
            seams.TIME.sleep(float(path[7:]))
        elif path.startswith("/never"):
            seams.TIME.sleep(1e6)
        body = ("%s n=%d pid=%d" % (path, n, seams.OS.getpid())).encode()
        hdrs = [("Content-Type", "text/plain")]
        if path.startswith("/slowbody/"):
            # /slowbody/<chunks>/<delay>: a body produced in pieces with simulated time between them
            _, _, nch, d = path.split("/")
            nch, d = int(nch), float(d)
            piece = b"0123456789"
            hdrs.append(("Content-Length", str(len(piece) * nch)))
            start_response("200 OK", hdrs)

            def gen():
                for i in range(nch):
                    if i:
                        seams.TIME.sleep(d)
                    yield piece
                self.app_done += 1
                s.ev(current_task().name, "app-end", path)
            return gen()
        if not path.startswith("/chunked"):
            hdrs.append(("Content-Length", str(len(body))))
        start_response("200 OK", hdrs)
        self.app_done += 1
        s.ev(current_task().name, "app-end", path)
        return [body]


class W3State:
    def __init__(self):
        self.active = {}
        self.armed = {}
        self.in_murder = False


class WorkerWorld:
    """One real worker process + its (dummy) parent + client actors."""

    def __init__(self, sim, kind, cfgd, addr=("127.0.0.1", 8000), extra_addrs=()):
        self.sim = sim
        self.kind = kind
        self.cfgd = dict(cfgd)
        self.addr = addr
        self.addrs = [addr] + list(extra_addrs)
        self.logs = []
        self.cap = Cap(self)
        self.worker = None
        self.wproc = None
        self.apphost = AppHost(sim)
        self.clients = []
        self.w3 = W3State()
        self.run_returned_at = None
        self.boot_error = None
        SimLogger.WORLD = self
        seams.install_kernel_seams()
        facade.SIM["sim"] = sim
        self.cproc = None
        self.parent = sim.spawn_proc(self._parent_main, "parent", 1, {"PWD": "/srv"})
        self.parent_alive = True

    def app(self, environ, start_response):
        return self.apphost.app(environ, start_response)

    def _parent_main(self):
        # the parent only exists so that getppid() has something to return; it can be killed by the script
        seams.TIME.sleep(1e7)

    def start_worker(self):
        cls = worker_class(self.kind)

        def main():
            cfg = Config()
            for k, v in self.cfgd.items():
                cfg.set(k, v)
            cfg.set("logger_class", SimLogger)
            cfg.set("bind", ["%s:%d" % a for a in self.addrs])
            log = SimLogger(cfg)
            listeners = gsock.create_sockets(cfg, log)
            w = cls(1, seams.OS.getppid(), listeners, _App(self.app), cfg.timeout / 2.0, cfg, log)
            w._w3 = self.w3
            self.worker = w
            w.pid = seams.OS.getpid()
            try:
                w.init_process()
                self.run_returned_at = self.sim.now
                self.sim.ev("worker", "run-returned", None)
                sys.exit(0)
            except SystemExit:
                raise
            except SimKilled:
                raise
            except Exception as e:
                import traceback
                self.boot_error = traceback.format_exc(limit=10)
                if not w.booted:
                    sys.exit(3)
                sys.exit(-1)
            finally:
                try:
                    w.tmp.close()
                except Exception:
                    pass
        self.wproc = self.sim.spawn_proc(main, "worker", self.parent.pid, {"PWD": "/srv"})
        return self.wproc

    def add_client(self, name, script, addr=None):
        if self.cproc is None:
            from simkit.kernel import Proc
            self.cproc = Proc(9, 1, "clients")
            self.sim.procs[9] = self.cproc
        c = Client(self, name, script, addr)
        self.clients.append(c)
        self.sim.new_task(self.cproc, c.run, name, False)
        return c

    def open_accepted(self):
        """Accepted sockets still open in the worker process (kernel truth)."""
        p = self.wproc
        return [fd for fd, e in p.fds.items() if e.ofd.kind == "stream"]


class _App:
    def __init__(self, fn):
        self.fn = fn

    def wsgi(self):
        return self.fn
