"""W5 — the pid-file world: the real gunicorn.pidfile.Pidfile operated by several simulated master instances on
the simulated file system and process table; single-threaded (operations are atomic with respect to each other, as
the property's quantifier says), with a crash or an I/O error injectable at every system call of an operation."""
import errno

from simkit import facade, seams, kernel
from simkit.core import HarnessError
from simkit.kernel import Sim, Proc, SimKilled
from gunicorn.pidfile import Pidfile


class DirectTask:
    """Stands in for a scheduler task when a world runs single-threaded in the caller's thread."""

    def __init__(self, sim, proc):
        self.sim, self.proc = sim, proc
        self.killed = False
        self.is_main = True
        self.ticks = 0
        self.tick_hooks = {}
        self.state = "runnable"
        self.fork_zero = False
        self.spin_mark = -1.0
        self.spin_n = 0
        self.spun = False
        self.in_py_tick = False
        self.low = False
        self.timeout_at = None
        self.timeout_obj = None
        self.greenlet = False
        self.sysexit = False


class PidWorld:
    def __init__(self, choices):
        self.sim = Sim(choices)
        seams.install_kernel_seams()
        facade.SIM["sim"] = self.sim
        self.inst = {}

    def add_instance(self, name, pid, uid=0):
        p = Proc(pid, 1, name)
        p.ruid = p.euid = p.suid = uid
        self.sim.procs[pid] = p
        self.inst[name] = {"proc": p, "pf": None, "task": DirectTask(self.sim, p)}
        return p

    def as_instance(self, name, fn, crash_at=None, fail_at=None, fail_errno=errno.ENOSPC):
        """Run fn() as instance `name`.  crash_at=k: the process dies right after its k-th system call of this
        operation (k>=1) or before the first (k=0).  fail_at=k: the k-th file-system call raises fail_errno.
        Returns (outcome, value): 'ok'/'raised'/'crashed'."""
        it = self.inst[name]
        t = it["task"]
        t.ticks = 0
        t.tick_hooks = {}
        sim = self.sim
        calls = {"n": 0}
        if crash_at is not None:
            if crash_at == 0:
                t.killed = True
            else:
                def die():
                    t.killed = True
                    raise SimKilled()
                t.tick_hooks[crash_at] = die
        if fail_at is not None:
            def fs_fail(op, path):
                calls["n"] += 1
                return fail_errno if calls["n"] == fail_at else None
            sim.fs_fail = fs_fail
        kernel._tls.task = t
        try:
            try:
                return "ok", fn()
            except SimKilled:
                # the instance is dead: only what the kernel had applied survives
                p = it["proc"]
                p.state = "gone"
                for fd in list(p.fds):
                    sim._close_entry(p, fd)
                return "crashed", None
            except HarnessError:
                raise
            except Exception as e:
                return "raised", e
        finally:
            kernel._tls.task = None
            sim.fs_fail = None
            self.syscalls = t.ticks

    def content(self, path):
        n = self.sim.fs.get(path)
        return None if n is None else bytes(n.data)

    def foreign_write(self, path, data):
        from simkit.kernel import Inode
        n = Inode("file", 0o644, 0, 0)
        n.data = bytearray(data)
        n.path = path
        self.sim.fs[path] = n
