"""Grammar-based generator of request streams with obfuscation operators (C01, C05, C06, C07, C12).

Everything is drawn from the rng that is passed in; output is bytes.  A *stream* is a list of messages
(each bytes) so that structural shrinking can drop whole messages or single lines.
"""

METHODS = [b"GET", b"POST", b"PUT", b"DELETE", b"HEAD", b"OPTIONS", b"PATCH"]
TARGETS = [b"/", b"/a/b?x=1&y=2", b"/%41%2f", b"*", b"http://h.example/p?q", b"/a#frag", b"//x/y",
           b"/\xe9t\xe9", b"/a;p=1", b"/" + b"x" * 40]
BENIGN = [(b"Host", b"example.org"), (b"User-Agent", b"sim/1.0"), (b"Accept", b"*/*"),
          (b"X-A", b"1"), (b"X-A", b"2"), (b"Cookie", b"a=b; c=d"), (b"X-Obs", b"caf\xe9"),
          (b"X-Tab", b"a\tb"), (b"Referer", b"http://r/"), (b"X-Empty", b""),
          (b"Content-Type", b"text/plain"), (b"X_Under", b"u"), (b"Authorization", b"Basic YTpi")]
# byte classes used by the obfuscation operators
ODD = [b"\0", b"\t", b"\n", b"\r", b"\x0b", b"\x0c", b" ", b"+", b"-", b",", b";", b'"', b"\x7f",
       b"\x80", b"\x85", b"\xa0", b"\xff", b"\x1f", b"\x01", b":", b"=", b"\r\n", b"\n\n", b"0", b"x"]
SMUGGLE = b"GET /smuggled HTTP/1.1\r\nHost: evil\r\n\r\n"
TE_LISTS = [b"chunked", b"Chunked", b"CHUNKED", b"gzip, chunked", b"chunked, gzip", b"chunked, chunked",
            b"identity", b"identity, chunked", b"chunked, identity", b"gzip", b"x-foo, chunked",
            b"chunked;q=1", b",chunked", b"chunked,", b"chunked ,", b", ,chunked", b"deflate,gzip,chunked",
            b"compress", b"\"chunked\"", b"chunked\t", b"xchunked", b"chunkedx", b"chun ked", b""]


def rbytes(rng, n, alphabet=None):
    if alphabet is None:
        return bytes(rng.randrange(256) for _ in range(n))
    return bytes(rng.choice(alphabet) for _ in range(n))


def gen_body(rng, maxlen=300):
    k = rng.randrange(8)
    if k == 0:
        return b""
    if k == 1:
        return SMUGGLE
    if k == 2:   # line structured
        return b"".join(rbytes(rng, rng.randrange(0, 30), b"abc \r") + b"\n" for _ in range(rng.randrange(1, 6)))
    if k == 3:
        return rbytes(rng, rng.randrange(1, maxlen))
    if k == 4:
        return b"0\r\n\r\n" + SMUGGLE
    if k == 5:
        return rbytes(rng, rng.randrange(1, 40), b"\r\n0a;")
    if k == 6:
        return b"x" * rng.choice([1, 2, 1023, 1024, 1025, 2048, 3000])
    return rbytes(rng, rng.randrange(1, 60), b"abcdefgh\n")


def odd(rng):
    return rng.choice(ODD)


def obf_value(rng, v):
    """Insert an odd byte class before / after / inside a value."""
    o = odd(rng)
    k = rng.randrange(4)
    if k == 0:
        return o + v
    if k == 1:
        return v + o
    if k == 2 and len(v) > 1:
        i = rng.randrange(1, len(v))
        return v[:i] + o + v[i:]
    return o + v + o


def obf_name(rng, n):
    k = rng.randrange(8)
    if k == 0:
        return n + b" "
    if k == 1:
        return n + b"\t"
    if k == 2:
        return b" " + n
    if k == 3:
        return n.replace(b"-", b"_")
    if k == 4:
        return n.swapcase()
    if k == 5:
        return n + odd(rng)
    if k == 6:
        i = rng.randrange(1, len(n))
        return n[:i] + odd(rng) + n[i:]
    return n.upper()


def chunk_encode(rng, body, hostile):
    out = []
    pos = 0
    while pos < len(body):
        n = min(len(body) - pos, rng.choice([1, 2, 3, 5, 16, 100, 1024, 5000]))
        size = b"%x" % n
        k = rng.randrange(10)
        if k == 0:
            size = size.upper()
        elif k == 1:
            size = b"0" * rng.randrange(1, 4) + size
        ext = b""
        if rng.randrange(4) == 0:
            ext = rng.choice([b";a=b", b" ;x", b";\"q\"", b";", b"\t;a", b";a=\"b;c\"", b";" + b"e" * 30])
        line = size + ext
        term = b"\r\n"
        dterm = b"\r\n"
        if hostile and rng.randrange(12) == 0:
            k = rng.randrange(12)
            if k == 0:
                line = b"0x" + size
            elif k == 1:
                line = obf_value(rng, size)
            elif k == 2:
                line = size + b";" + odd(rng) + b"x"
            elif k == 3:
                term = b"\n"
            elif k == 4:
                dterm = rng.choice([b"\n", b"", b"XX", b"\r", b"\r\r\n", b" \r\n"])
            elif k == 5:
                line = b"-" + size
            elif k == 6:
                line = size + b" "
            elif k == 7:
                line = b""
            elif k == 8:
                line = size + b";a\nb"
            elif k == 9:
                line = size + b";a\rb"
            elif k == 10:
                line = b"%x" % (n + 1)
            else:
                line = size + b";a=\0"
            if k in (0, 1, 5, 10) and rng.randrange(2):
                # a malformed size together with a (legal) extension: the two are handled by different branches of a parser
                line = line + (ext or rng.choice([b";a=b", b" ;x", b";"]))
        out.append(line + term + body[pos:pos + n] + dterm)
        pos += n
    last = rng.choice([b"0", b"0", b"0", b"00", b"0;x=y", b"0 ;z"])
    if hostile and rng.randrange(15) == 0:
        last = rng.choice([b"0 ", b"0\n", b"-0", b"0x0", b"", b"0;a\nb", b"+0", b" 0;x", b"\t0 ;x=y", b"+0;a", b"0x0;a=b"])
    out.append(last + b"\r\n")
    k = rng.randrange(6)
    if k == 0:
        out.append(b"X-Trailer: t\r\n")
    elif k == 1:
        out.append(b"X-T1: 1\r\nX-T2: caf\xe9\r\n")
    elif k == 2 and hostile:
        out.append(rng.choice([b"Bad Name: x\r\n", b"X-T : v\r\n", b" folded\r\n", b"X: a\0b\r\n",
                               b"Content-Length: 5\r\n", b"X: a\nb\r\n", b"NoColon\r\n"]))
    out.append(b"\r\n")
    return b"".join(out)


def gen_message(rng, hostile=True, keepalive=True, body_maxlen=300):
    method = rng.choice(METHODS)
    target = rng.choice(TARGETS)
    version = b"HTTP/1.1" if rng.randrange(5) else b"HTTP/1.0"
    sep1 = sep2 = b" "
    if hostile and rng.randrange(12) == 0:
        k = rng.randrange(12)
        if k == 0:
            version = rng.choice([b"HTTP/1.2", b"HTTP/2.0", b"HTTP/0.9", b"HTTP/1.10", b"HTTP/01.1",
                                  b"http/1.1", b"HTTP/1.1 ", b"HTTP/1", b"HTTP/1.1\t", b"HTTP/1.\xb9"])
        elif k == 1:
            sep1 = rng.choice([b"  ", b"\t", b"\x0b", b""])
        elif k == 2:
            sep2 = rng.choice([b"  ", b"\t", b"\x0c"])
        elif k == 3:
            method = rng.choice([b"get", b"G", b"GE T", b"G\0T", b"GET\xe9", b"X" * 25, b"GET#", b""])
        elif k == 4:
            target = obf_value(rng, target)
        elif k == 5:
            target = b""
        elif k == 6:
            target = b"/a b"
        else:
            target = target + odd(rng) + b"z"
    lines = [method + sep1 + target + sep2 + version]
    hdrs = [rng.choice(BENIGN) for _ in range(rng.randrange(0, 5))]
    body = b""
    kind = rng.choice(["none", "none", "cl", "cl", "chunked", "chunked"])
    framing = []
    wire_body = b""
    if kind == "cl":
        body = gen_body(rng, body_maxlen)
        framing.append([b"Content-Length", b"%d" % len(body)])
        wire_body = body
    elif kind == "chunked":
        body = gen_body(rng, body_maxlen)
        framing.append([b"Transfer-Encoding", b"chunked"])
        wire_body = chunk_encode(rng, body, hostile)
    if hostile and rng.randrange(3) == 0:
        k = rng.randrange(14)
        if k == 0 and framing:
            framing[0][0] = obf_name(rng, framing[0][0])
        elif k == 1 and framing:
            framing[0][1] = obf_value(rng, framing[0][1])
        elif k == 2:
            framing.append([b"Content-Length", rng.choice([b"0", b"%d" % len(wire_body), b"5", b"+5", b"5, 5", b"0x5", b"\xb2", b" 5", b"5 ", b"-1", b"", b"1e1", b"05"])])
        elif k == 3:
            framing.append([b"Transfer-Encoding", rng.choice(TE_LISTS)])
        elif k == 4 and kind == "chunked":
            framing[0][1] = rng.choice(TE_LISTS)
        elif k == 5 and kind == "chunked":
            version = b"HTTP/1.0"
            lines[0] = method + sep1 + target + sep2 + version
        elif k == 6 and framing:
            framing.append(list(framing[0]))
        elif k == 7:
            framing.insert(0, [b"Transfer-Encoding", rng.choice(TE_LISTS)])
        elif k == 8 and framing:
            framing[0][1] = framing[0][1] + b"\r\n " + rng.choice([b"chunked", b"0", b"x"])   # obs-fold
        elif k == 9:
            hdrs.append((b"X-Inj", b"a" + odd(rng) + b"Content-Length: 3"))
        elif k == 10:
            hdrs.append((obf_name(rng, b"X-Name"), b"v"))
        elif k == 11 and kind == "cl":
            framing[0][1] = b"%d" % max(0, len(body) + rng.choice([-1, 1, 7]))
        elif k == 12:
            hdrs.append((b"", b"empty-name"))
        else:
            hdrs.append((b"Transfer_Encoding", b"chunked"))
    conn = rng.randrange(6)
    if not keepalive or conn == 0:
        hdrs.append((b"Connection", b"close"))
    elif conn == 1:
        hdrs.append((b"Connection", rng.choice([b"keep-alive", b"Keep-Alive", b"keep-alive, x", b" close "])))
    allh = [tuple(h) for h in hdrs] + [tuple(f) for f in framing]
    rng.shuffle(allh)
    for n, v in allh:
        sp = b" " if rng.randrange(8) else rng.choice([b"", b"  ", b"\t", b" \t "])
        lines.append(n + b":" + sp + v)
    eol = b"\r\n"
    head = eol.join(lines) + eol + eol
    if hostile and rng.randrange(25) == 0:
        # bare-LF line endings somewhere
        i = rng.randrange(len(lines))
        head = eol.join(lines[:i + 1]) + b"\n" + eol.join(lines[i + 1:]) + eol + eol
    msg = head + wire_body
    if hostile and rng.randrange(20) == 0 and len(msg) > 2:
        # one raw byte-level mutation
        i = rng.randrange(len(msg))
        k = rng.randrange(3)
        if k == 0:
            msg = msg[:i] + odd(rng) + msg[i:]
        elif k == 1:
            msg = msg[:i] + msg[i + 1:]
        else:
            msg = msg[:i] + odd(rng) + msg[i + 1:]
    return msg


def gen_stream(rng, max_msgs=3, hostile=True, body_maxlen=300):
    n = rng.randrange(1, max_msgs + 1)
    return [gen_message(rng, hostile=hostile and rng.randrange(3) > 0, body_maxlen=body_maxlen)
            for _ in range(n)]


CANONICAL = [
    b"GET / HTTP/1.1\r\nHost: a\r\n\r\n",
    b"GET /x?y=1 HTTP/1.0\r\n\r\n",
    b"POST /p HTTP/1.1\r\nHost: a\r\nContent-Length: 5\r\n\r\nhello",
    b"POST /p HTTP/1.1\r\nHost: a\r\nContent-Length: 0\r\n\r\n",
    b"POST /c HTTP/1.1\r\nHost: a\r\nTransfer-Encoding: chunked\r\n\r\n5\r\nhello\r\n0\r\n\r\n",
    b"POST /c HTTP/1.1\r\nHost: a\r\nTransfer-Encoding: chunked\r\n\r\n3;ext=1\r\nabc\r\nA\r\n0123456789\r\n0\r\nX-T: v\r\n\r\n",
    b"PUT /c HTTP/1.1\r\nTransfer-Encoding: gzip, chunked\r\nHost: a\r\n\r\n0\r\n\r\n",
    b"DELETE /d HTTP/1.1\r\nHost: a\r\nConnection: keep-alive\r\nX-A: caf\xe9\r\n\r\n",
    b"OPTIONS * HTTP/1.1\r\nHost: a\r\n\r\n",
    b"POST /p HTTP/1.0\r\nContent-Length: 3\r\nConnection: keep-alive\r\n\r\nabc",
    b"HEAD /h HTTP/1.1\r\nHost: a\r\nAccept:\t*/*\r\n\r\n",
    b"POST /c HTTP/1.1\r\nHost: a\r\nTransfer-Encoding:chunked\r\n\r\n00a\r\n0123456789\r\n000\r\n\r\n",
]


def shrink_stream(msgs):
    """Structural shrink candidates for a list of message bytes."""
    for i in range(len(msgs)):
        if len(msgs) > 1:
            yield msgs[:i] + msgs[i + 1:]
    for i, m in enumerate(msgs):
        he = m.find(b"\r\n\r\n")
        if he < 0:
            continue
        lines = m[:he].split(b"\r\n")
        for j in range(1, len(lines)):
            yield msgs[:i] + [b"\r\n".join(lines[:j] + lines[j + 1:]) + m[he:]] + msgs[i + 1:]
        body = m[he + 4:]
        if len(body) > 8:
            yield msgs[:i] + [m[:he + 4] + body[:len(body) // 2]] + msgs[i + 1:]


GRID = None


def grid_streams():
    """A fixed, enumerated set of streams in which two independently handled features of one grammar rule meet (a prefix and an
    extension on a chunk-size line; the order, repetition and spelling of the framing fields; an odd byte on either side of a field
    name or value).  Random generation reaches such pairs rarely; the grid runs them all in every batch (index < len(grid))."""
    global GRID
    if GRID is not None:
        return GRID
    out = []
    nxt = b"GET /next HTTP/1.1\r\nHost: a\r\n\r\n"
    head = b"POST /c HTTP/1.1\r\nHost: a\r\nTransfer-Encoding: chunked\r\n\r\n"
    # 1. chunk-size line: prefix x digits x BWS x extension x suffix   (first chunk and last chunk)
    for pre in (b"", b" ", b"\t", b"0x", b"-", b"+", b"\x0b"):
        for bws in (b"", b" ", b"\t"):
            for ext in (b"", b";", b";a=b", b";a=\"b c\"", b"; a=b"):
                for suf in (b"", b" ", b"\t"):
                    if not ext and bws and suf:
                        continue
                    line = pre + b"5" + bws + ext + suf
                    out.append([head + line + b"\r\nhello\r\n0\r\n\r\n", nxt])
                    last = pre + b"0" + bws + ext + suf
                    out.append([head + b"5\r\nhello\r\n" + last + b"\r\n\r\n", nxt])
    # 2. framing fields: order, repetition, spelling
    cls = [b"Content-Length: 5", b"Content-Length: 5 ", b"Content-Length:5", b"content-length: 5", b"Content-Length: 05",
           b"Content-Length: +5", b"Content-Length: 5, 5", b"Content-Length: 0x5", b"Content_Length: 5", b"Content-Length : 5"]
    tes = [b"Transfer-Encoding: chunked", b"transfer-encoding: Chunked", b"Transfer-Encoding: gzip, chunked", b"Transfer-Encoding: chunked, gzip",
           b"Transfer-Encoding: identity", b"Transfer_Encoding: chunked", b"Transfer-Encoding : chunked", b"Transfer-Encoding:\tchunked\t"]
    cbody = b"5\r\nhello\r\n0\r\n\r\n"
    for ver in (b"HTTP/1.1", b"HTTP/1.0"):
        start = b"POST /f " + ver + b"\r\nHost: a\r\n"
        for c in cls:
            out.append([start + c + b"\r\n\r\nhello", nxt])
            for t in tes:
                out.append([start + c + b"\r\n" + t + b"\r\n\r\n" + cbody, nxt])
                out.append([start + t + b"\r\n" + c + b"\r\n\r\n" + cbody, nxt])
        for t in tes:
            out.append([start + t + b"\r\n\r\n" + cbody, nxt])
            out.append([start + t + b"\r\n" + tes[0] + b"\r\n\r\n" + cbody, nxt])
            out.append([start + tes[0] + b"\r\n" + t + b"\r\n\r\n" + cbody, nxt])
        out.append([start + cls[0] + b"\r\n" + cls[0] + b"\r\n\r\nhello", nxt])
        out.append([start + cls[0] + b"\r\nContent-Length: 6\r\n\r\nhello!", nxt])
    # 3. an odd byte class before / after a field name and a field value
    for o in (b" ", b"\t", b"\x0b", b"\x0c", b"\0", b"\r", b"\n", b"\x7f", b"\x80", b"\xa0", b":", b"\""):
        for name, val in ((b"Host", b"a"), (b"Content-Length", b"0"), (b"X-A", b"v")):
            for k in range(6):
                n, v = name, val
                sep = b": "
                if k == 0:
                    n = o + name
                elif k == 1:
                    n = name + o
                elif k == 2:
                    v = o + val
                elif k == 3:
                    v = val + o
                elif k == 4:
                    sep = b":" + o
                else:
                    v = val[:1] + o + val[1:] + b"x"
                hs = [(b"Host", b"a")] if name != b"Host" else []
                m = b"POST /o HTTP/1.1\r\n" + b"".join(a + b": " + b + b"\r\n" for a, b in hs) + n + sep + v + b"\r\n\r\n"
                out.append([m, nxt])
    # 4. request line: separators and versions
    for sep1 in (b" ", b"  ", b"\t", b""):
        for sep2 in (b" ", b"  ", b"\t"):
            for ver in (b"HTTP/1.1", b"HTTP/1.0", b"HTTP/1.1 ", b"HTTP/2.0", b"http/1.1", b"HTTP/1.01"):
                if sep1 == b" " and sep2 == b" " and ver in (b"HTTP/1.1", b"HTTP/1.0"):
                    continue
                out.append([b"GET" + sep1 + b"/r" + sep2 + ver + b"\r\nHost: a\r\n\r\n", nxt])
    GRID = out
    return out
