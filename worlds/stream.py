"""W1 — the stream world: real gunicorn.http (RequestParser / Request / Body / *Reader / SocketUnreader)
reading from a simulated connection whose segmentation into recv() results is the schedule.

Real code: gunicorn.http.parser, .message, .body, .unreader, gunicorn.config.Config.
Stub: the peer and the network (CutSock).
"""
import errno

from gunicorn.config import Config
from gunicorn.http import RequestParser
from gunicorn.http.errors import NoMoreData
from simkit.core import HarnessError, Wedged

_CFG_CACHE = {}


def make_cfg(**kw):
    key = tuple(sorted((k, repr(v)) for k, v in kw.items()))
    c = _CFG_CACHE.get(key)
    if c is None:
        c = Config()
        for k, v in kw.items():
            c.set(k, v)
        if len(_CFG_CACHE) > 512:
            _CFG_CACHE.clear()
        _CFG_CACHE[key] = c
    return c


class ReadInterrupted(BaseException):
    """What gevent.Timeout / eventlet.Timeout are to a blocked read: a BaseException raised out of recv() by the application's own timer
    (`with gevent.Timeout(t, False): environ['wsgi.input'].read()`), after which the application answers normally."""


class CutSock:
    """Server end of a simulated connection (read side only).

    data : the bytes the peer sends, in order
    cuts : sorted stream offsets at which the network splits deliveries; recv(n) returns
           min(n, bytes up to the next cut) bytes, never 0 before the end
    end  : "eof" (orderly close after the data) | "reset" (ECONNRESET after the data) | "endless"
           (the peer keeps repeating `filler` for ever - the lazy-peer meter of C12)
    """

    def __init__(self, data, cuts=(), end="eof", filler=b"", meter_cap=None, lazy_chunk=8192, interrupt_at=None):
        self.interrupt_at = interrupt_at      # the n-th recv() does not return: a timer of the application fires while it is blocked there
        self.data = data
        self.cuts = list(cuts)
        self.ci = 0
        self.pos = 0
        self.end = end
        self.filler = filler
        self.recvs = 0
        self.meter_cap = meter_cap
        self.capped = False
        self.lazy_chunk = lazy_chunk
        self.probes = set()

    def recv(self, n):
        self.recvs += 1
        if self.interrupt_at is not None and self.recvs == self.interrupt_at:
            self.interrupt_at = None
            raise ReadInterrupted()
        if self.pos >= len(self.data):
            if self.end == "eof":
                self.eof_recvs = getattr(self, "eof_recvs", 0) + 1
                if self.eof_recvs > 100:
                    raise Wedged("recv() called %d times on a connection that is at end of file" % self.eof_recvs)
                return b""
            if self.end == "reset":
                raise ConnectionResetError(errno.ECONNRESET, "reset by simulated peer")
            # endless lazy peer
            if self.meter_cap is not None and self.pos >= self.meter_cap:
                self.capped = True
                return b""
            k = min(n, self.lazy_chunk)
            off = (self.pos - len(self.data)) % len(self.filler)
            out = (self.filler[off:] + self.filler * (k // len(self.filler) + 1))[:k]
            self.pos += len(out)
            return out
        while self.ci < len(self.cuts) and self.cuts[self.ci] <= self.pos:
            self.ci += 1
        stop = self.cuts[self.ci] if self.ci < len(self.cuts) else len(self.data)
        stop = min(stop, self.pos + n, len(self.data))
        out = self.data[self.pos:stop]
        self.pos = stop
        return out


def consumed_offset(parser, sock):
    """Stream offset of the first byte the parser has not used yet."""
    return sock.pos - len(parser.unreader.buf.getvalue())


def read_all(body):
    out = []
    while True:
        d = body.read(8192)
        if not d:
            break
        out.append(d)
    return b"".join(out)


def observe(cfg, data, cuts=(), end="eof", peer=("10.0.0.9", 4321), max_requests=8, consumer=None,
            sock=None):
    """Iterate the real RequestParser over the stream; return (observations, terminal, sock).

    observation: dict(start, end, method, uri, version, headers, body, trailers)
    terminal   : ("end",) clean stop | ("incomplete",) NoMoreData | ("reject", ExcName, phase)
                 | ("reset",) | ("cap",) max_requests reached
    consumer(req) -> bytes-like record of what it read (default: read everything)
    """
    sock = sock or CutSock(data, cuts, end)
    parser = RequestParser(cfg, sock, peer)
    obs = []
    while True:
        if len(obs) >= max_requests:
            return obs, ("cap",), sock
        start = consumed_offset(parser, sock)
        phase = "head"
        try:
            req = next(parser)
        except StopIteration:
            return obs, ("end",), sock
        except ReadInterrupted:
            return obs, ("interrupted", phase), sock
        except Wedged:
            return obs, ("wedged", phase), sock
        except NoMoreData:
            return obs, ("incomplete", phase), sock
        except ConnectionResetError:
            return obs, ("reset",), sock
        except HarnessError:
            raise
        except Exception as e:
            return obs, ("reject", type(e).__name__, phase), sock
        o = {"start": start, "method": req.method, "uri": req.uri, "version": req.version,
             "headers": list(req.headers), "body": None, "trailers": None, "end": None,
             "close": None, "req": req}
        o["head_end"] = consumed_offset(parser, sock)
        obs.append(o)
        phase = "body"
        try:
            if consumer is None:
                o["body"] = read_all(req.body)
            else:
                o["body"] = consumer(req)
                # the parser itself discards the rest before the next request
        except NoMoreData:
            return obs, ("incomplete", phase), sock
        except ConnectionResetError:
            return obs, ("reset",), sock
        except HarnessError:
            raise
        except (Exception, ReadInterrupted) as e:
            # An application may catch what wsgi.input raised and answer normally; the worker then asks the parser for the next request
            # of the connection.  A stream whose body framing was broken has no "next request": record what the parser does then.
            after = None
            try:
                nxt = next(parser)
                after = {"method": nxt.method, "uri": nxt.uri}
            except HarnessError:
                raise
            except BaseException:
                after = None
            return obs, ("reject", type(e).__name__, phase, after), sock
        o["trailers"] = list(req.trailers)
        if consumer is None:
            o["end"] = consumed_offset(parser, sock)
        o["close"] = req.should_close()


def strip_req(obs):
    return [{k: v for k, v in o.items() if k != "req"} for o in obs]
