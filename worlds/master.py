"""W4 — the master world: the real Arbiter.run() (and sock / pidfile / systemd / workertmp / Worker.__init__ /
Worker.init_process / util.set_owner_process) on the simulated kernel, with workers that are either scripted
stub processes (real boot via spawn_worker's child side + init_process, scripted run loop) or the real
SyncWorker / ThreadWorker.

fork: a Python frame cannot be cloned, so the child side of spawn_worker()/reexec() is executed by *re-entry*:
at the simulated fork the world deep-copies the arbiter and the worker being spawned (cfg / app / log shared),
and a new simulated process calls the real method again on the copy with fork() returning 0.
"""
import copy
import logging
import sys

from gunicorn.app.base import BaseApplication
from gunicorn.arbiter import Arbiter
from gunicorn.errors import AppImportError
from gunicorn import glogging
from gunicorn.workers import base as wbase

from simkit import facade, seams
from simkit.core import HarnessError  # noqa: re-exported for checks
from simkit.kernel import Sim, current_task, SimKilled, SIGNAMES
import signal as _signal

MASTER_PROG = sys.executable


class Cap(logging.Handler):
    def __init__(self, world):
        logging.Handler.__init__(self)
        self.world = world

    def emit(self, record):
        try:
            msg = record.getMessage()
            if record.exc_info:
                import traceback
                msg += " | " + "".join(traceback.format_exception(*record.exc_info))[-1200:]
            self.world.logs.append((record.levelname, msg))
        except Exception as e:
            self.world.logs.append(("FORMAT-ERROR", repr(e)))


class SimLogger(glogging.Logger):
    WORLD = None

    def setup(self, cfg):
        self.loglevel = logging.DEBUG
        w = SimLogger.WORLD
        for lg in (self.error_log, self.access_log):
            for h in list(lg.handlers):
                lg.removeHandler(h)
            lg.addHandler(w.cap)
            lg.setLevel(logging.INFO)
            lg.propagate = False


class SimApp(BaseApplication):
    """Application object whose configuration source is owned by the world (so HUP can change it)."""

    def __init__(self, world):
        self.world = world
        super().__init__()

    def init(self, parser, opts, args):
        return {}

    def load_config(self):
        w = self.world
        src = dict(w.cfgsrc)
        for k, v in src.items():
            self.cfg.set(k, v)
        # settings given through the environment (GUNICORN_CMD_ARGS): only --user / --group are modelled; what counts is
        # the environment of *this* simulated process (an upgraded master only sees what reexec() passed on)
        args = (seams.OS.environ.get("GUNICORN_CMD_ARGS") or "").split()
        for i_ in range(0, len(args) - 1, 2):
            if args[i_] in ("--user", "--group"):
                v_ = args[i_ + 1]
                self.cfg.set(args[i_][2:], int(v_) if v_.isdigit() else v_)
        intended = dict(w.env_identity or {})
        for k_ in ("user", "group"):
            if k_ in src:
                intended[k_] = src[k_]
        tcur = current_task()
        if tcur is not None:
            w.intended[tcur.proc.pid] = (intended.get("user"), intended.get("group"))
        self.cfg.set("logger_class", SimLogger)
        self.cfg.set("worker_class", w.worker_class)
        self.cfg.set("post_worker_init", _post_worker_init)
        self.cfg.env_orig = dict(w.base_env)
        s = facade.sim()
        t = current_task()
        s.ev(t.proc.name if t else "?", "load_config", (src.get("workers"), src.get("proc_name")))
        w.config_loads.append((t.proc.pid if t else None, src.get("workers"), src.get("proc_name")))

    def wsgi(self):
        # the application object is shared by the clones of one simulated server (fork = re-entry on a deep copy that shares cfg/app/log);
        # a real worker process has its own copy and, without preload_app, imports the application itself: never cache across processes
        t = current_task()
        pid = t.proc.pid if t is not None else None
        if getattr(self, "_loaded_in", None) != pid or self.callable is None:
            self.callable = self.load()
            self._loaded_in = pid
        return self.callable

    def load(self):
        w = self.world
        t = current_task()
        if w.on_app_load is not None:
            w.on_app_load(t.proc)
        if w.app_load_delay and w.sim.now > 0.05:
            # importing the application takes time: workers of later generations are not ready at once
            seams.TIME.sleep(w.app_load_delay)
        return w.wsgi_app


class SimArbiter(Arbiter):
    """The real Arbiter; the overrides only emit simulator events and then call the real method."""

    def _ev(self, kind, detail=None):
        facade.sim().ev(current_task().proc.name, kind, detail)

    def handle_ttin(self):
        self._ev("handle", "ttin")
        super().handle_ttin()

    def handle_ttou(self):
        self._ev("handle", "ttou")
        super().handle_ttou()

    def handle_hup(self):
        self._ev("handle", "hup")
        super().handle_hup()
        self._ev("handled", "hup")

    def handle_usr2(self):
        self._ev("handle", "usr2")
        super().handle_usr2()

    def handle_winch(self):
        self._ev("handle", "winch")
        super().handle_winch()

    def stop(self, graceful=True):
        self._world_stopping = True
        self._ev("stop", graceful)
        return super().stop(graceful)

    def spawn_worker(self):
        self._forking = "worker"
        try:
            return super().spawn_worker()
        finally:
            self._forking = None

    def reexec(self):
        self._forking = "reexec"
        try:
            return super().reexec()
        finally:
            self._forking = None


def _post_worker_init(worker):
    """server hook of every simulated configuration: the last step of a worker's boot; a script can make it raise"""
    sc = worker.script() if hasattr(worker, "script") else {}
    if sc.get("boot") == "post_init3":
        t = current_task()
        SimLogger.WORLD.boot_failures.append((t.proc.pid, 3, facade.sim().now))
        raise RuntimeError("scripted post_worker_init failure")


class StubWorker(wbase.Worker):
    """Scripted worker: the real Worker.__init__ (WorkerTmp, max_requests) and the real init_process boot it;
    run() follows the script the world holds for this worker's age (DESIGN Appendix C)."""

    def __init__(self, *args, **kwargs):
        super().__init__(*args, **kwargs)
        # the script is fixed when the worker is created (workers created after the world's faults_end are healthy)
        self._script = self.cfg_world.script_for(self.age)

    def script(self):
        return self._script

    @property
    def cfg_world(self):
        return SimLogger.WORLD

    def load_wsgi(self):
        sc = self.script()
        w = self.cfg_world
        t = current_task()
        if w.on_app_load is not None:
            w.on_app_load(t.proc)
        boot = sc.get("boot", "ok")
        if w.boot_fail_under is not None and w.boot_fail_under(t.proc):
            # e.g. the release a master was upgraded to cannot load its application
            boot = w.boot_fail_kind
        if sc.get("boot_delay"):
            seams.TIME.sleep(sc["boot_delay"])
        if sc.get("boot_at_next_fork") and boot != "ok":
            # fail at the very moment the master forks its next worker (bounded wait): the SIGCHLD then competes with the registration of that worker
            n0 = len(w.forks)
            facade.sim().block(lambda: len(w.forks) > n0, 1.0, False, False)
        if boot == "exit3":
            w.boot_failures.append((t.proc.pid, 3, facade.sim().now))
            raise RuntimeError("scripted boot failure")
        if boot == "exit4":
            w.boot_failures.append((t.proc.pid, 4, facade.sim().now))
            raise AppImportError("scripted application import failure")
        self.wsgi = w.wsgi_app

    def handle_exit(self, sig, frame):
        if self.script().get("term") == "ignore":
            facade.sim().probe("stub_ignored_term")
            return
        super().handle_exit(sig, frame)

    def handle_abort(self, sig, frame):
        if self.script().get("abrt") == "ignore":
            facade.sim().probe("stub_ignored_abrt")
            return
        super().handle_abort(sig, frame)

    def run(self):
        s = facade.sim()
        sc = self.script()
        w = self.cfg_world
        me = current_task().proc
        os_, sel, tm = seams.OS, seams.SELECT, seams.TIME
        for l in self.sockets:
            l.setblocking(False)
        t0 = s.now
        beat_until = sc.get("beat_until")          # stop heart-beating after this many seconds (hang)
        die_at = sc.get("die_at")
        gap = sc.get("beat_gap") or max(0.05, float(self.timeout) if self.timeout else 0.5)
        serve_time = sc.get("serve_time", 0.01)
        term_seen_at = None
        while True:
            now = s.now - t0
            if die_at is not None and now >= die_at:
                how = sc.get("die_how", ("exit", 0))
                s.probe("stub_scripted_death")
                if how[0] == "exit":
                    sys.exit(how[1])
                os_.kill(os_.getpid(), how[1])
                tm.sleep(10)
            hung = beat_until is not None and now >= beat_until
            if hung:
                # a blocked application: no heartbeat, no reaction to TERM (handle_exit only sets a flag)
                s.probe("stub_hung")
                tm.sleep(3600.0)
                continue
            if not self.alive:
                if term_seen_at is None:
                    term_seen_at = s.now
                d = sc.get("term_delay", 0.0)
                if s.now - term_seen_at >= d:
                    return
            self.notify()
            waits = [gap]
            if die_at is not None:
                waits.append(max(0.0, die_at - now))
            if beat_until is not None:
                waits.append(max(0.0, beat_until - now))
            if not self.alive:
                waits.append(max(0.0, sc.get("term_delay", 0.0) - (s.now - term_seen_at)))
            try:
                ready = sel.select(self.wait_fds if self.alive else [self.PIPE[0]], [], [], max(0.001, min(waits)))[0]
            except OSError:
                ready = []
            if self.PIPE[0] in ready:
                try:
                    os_.read(self.PIPE[0], 64)
                except OSError:
                    pass
            for l in self.sockets:
                if l in ready and self.alive:
                    try:
                        c, addr = l.accept()
                    except OSError:
                        continue
                    w.stub_serve(self, c, serve_time)
            if self.ppid != os_.getppid():
                return


class World:
    def __init__(self, sim, cfgsrc, worker_class=StubWorker, scripts=None, base_env=None):
        self.sim = sim
        self.cfgsrc = dict(cfgsrc)
        self.worker_class = worker_class
        self.scripts = scripts or {}
        self.default_script = {}
        self.faults_end = None       # simulated time after which newly created workers are healthy
        self.base_env = dict(base_env or {"PATH": "/bin", "PWD": "/srv"})
        self.logs = []
        self.cap = Cap(self)
        self.masters = {}            # pid -> arbiter object (of that simulated process)
        self.config_loads = []
        self.on_app_load = None
        self.boot_fail_under = None       # predicate(worker process) -> the (stub) worker fails to boot with boot_fail_kind
        self.boot_fail_kind = "exit3"
        self.boot_failures = []           # (worker pid, exit status it owes, time): scripted failures during init_process
        self.wsgi_app = _default_app
        self.served = []             # (time, worker pid, age, marker)
        self.forks = []              # (time, parent pid, child pid, kind)
        self.addr = ("127.0.0.1", 8000)
        self.app_load_delay = 0.0    # simulated seconds the application import takes in workers started after t=0
        self.env_identity = None     # {"user":..., "group":...} given through GUNICORN_CMD_ARGS instead of the config source
        self.intended = {}           # master pid -> (user, group) the world intends for workers forked by that master
        self.cproc = None
        self.clients = []
        SimLogger.WORLD = self
        seams.install_kernel_seams()
        facade.SIM["sim"] = sim
        sim.on_fork = self.on_fork
        sim.programs[MASTER_PROG] = self.master_main

    def add_client(self, name, script, addr=None):
        from worlds.worker import Client
        from simkit.kernel import Proc
        if getattr(self, "cproc", None) is None:
            self.cproc = Proc(9, 1, "clients")
            self.sim.procs[9] = self.cproc
            self.clients = []
        c = Client(self, name, script, addr)
        self.clients.append(c)
        self.sim.new_task(self.cproc, c.run, name, False)
        return c

    def use_real_workers(self, kind):
        """Run the real SyncWorker / ThreadWorker inside this master world (thorough tier)."""
        from worlds import worker as W
        helper = W.AppHost(self.sim)
        self.apphost = helper
        self.wsgi_app = helper.app
        W.EvThreadWorker._w3 = W.W3State()
        self.worker_class = W.worker_class(kind)
        return helper

    def script_for(self, age):
        if self.faults_end is not None and self.sim.now >= self.faults_end:
            return self.default_script
        return self.scripts.get(age, self.default_script)

    # ------------------------------------------------------------------ programs
    def master_main(self, argv=None):
        t = current_task()
        app = SimApp(self)
        arb = SimArbiter(app)
        # class-level mutable attributes of Arbiter would be shared by every arbiter in this interpreter:
        # give each simulated process its own containers (a simulation artefact, see DESIGN §3)
        arb.WORKERS = {}
        arb.LISTENERS = []
        arb.SIG_QUEUE = []
        arb.PIPE = []
        arb._forking = None
        arb._world_stopping = False
        self.masters[t.proc.pid] = arb
        arb.run()

    def start_master(self, environ=None, uid=0, gid=0):
        env = dict(self.base_env)
        env.update(environ or {})
        return self.sim.spawn_proc(lambda: self.master_main(None), "master", 1, env, uid, gid)

    # ------------------------------------------------------------------ fork re-entry
    def on_fork(self, parent, child, ptask):
        arb = self.masters.get(parent.pid)
        if arb is None:
            raise HarnessError("fork() from a process that is not a simulated master (pid %d)" % parent.pid)
        mode = arb._forking
        worker = None
        if mode == "worker":
            f = sys._getframe()
            code = Arbiter.spawn_worker.__code__
            while f is not None and f.f_code is not code:
                f = f.f_back
            if f is None:
                raise HarnessError("fork() outside Arbiter.spawn_worker")
            worker = f.f_locals.get("worker")
        memo = {}
        shared = [arb.cfg, arb.app, arb.log, self, self.sim, self.cap]
        for w in list(arb.WORKERS.values()) + ([worker] if worker is not None else []):
            shared += [w.cfg, w.app, w.log]
        for o in shared:
            memo[id(o)] = o
        # BaseSocket delegates unknown attributes (incl. __deepcopy__) to its socket object: copy listeners by hand
        from gunicorn.sock import BaseSocket
        lsts = list(arb.LISTENERS)
        for w in list(arb.WORKERS.values()) + ([worker] if worker is not None else []):
            lsts += [x for x in getattr(w, "sockets", []) if isinstance(x, BaseSocket)]
        for l in lsts:
            if id(l) not in memo:
                c = object.__new__(type(l))
                c.__dict__.update(l.__dict__)
                if l.sock is not None:
                    c.sock = copy.deepcopy(l.sock)
                memo[id(l)] = c
        clone, cworker = copy.deepcopy((arb, worker), memo)
        self.masters[child.pid] = clone
        self.forks.append((self.sim.now, parent.pid, child.pid, mode))
        # the child's copy of the signal table must point at the child's copy of the objects
        for sig, h in list(child.handlers.items()):
            owner = getattr(h, "__self__", None)
            if owner is not None and id(owner) in memo and memo[id(owner)] is not owner:
                child.handlers[sig] = getattr(memo[id(owner)], h.__func__.__name__)
        if mode == "worker":
            clone.worker_age -= 1
            clone.worker_class = lambda *a, **k: cworker
            child.name = "worker%d" % cworker.age
            cworker._sim_pid = child.pid

            def child_fn():
                try:
                    clone.spawn_worker()
                finally:
                    self.masters.pop(child.pid, None)
            return child_fn
        if mode == "reexec":
            child.name = "master2"

            def child_fn2():
                self.masters.pop(child.pid, None)
                try:
                    clone.reexec()
                except (SystemExit, KeyboardInterrupt):
                    raise
                except Exception:
                    # The real child is a copy of the master *inside* run() -> handle_usr2() -> reexec(): whatever reexec() raises there
                    # lands in the exception clause of Arbiter.run().  The re-entered child has no such frames, so that clause is replayed
                    # here verbatim (gunicorn/arbiter.py, `except Exception:` of run()).
                    clone.log.error("Unhandled exception in main loop", exc_info=True)
                    clone.stop(False)
                    if clone.pidfile is not None:
                        clone.pidfile.unlink()
                    sys.exit(-1)
            return child_fn2
        raise HarnessError("fork() from the master outside spawn_worker/reexec")

    # ------------------------------------------------------------------ stub request service
    def stub_serve(self, worker, c, serve_time):
        s = self.sim
        os_, tm = seams.OS, seams.TIME
        try:
            c.setblocking(True)
            data = b""
            while b"\r\n\r\n" not in data:
                d = c.recv(8192)
                if not d:
                    break
                data += d
            if b"\r\n\r\n" in data:
                dur = serve_time
                if b"X-Dur: " in data:
                    dur = float(data.split(b"X-Dur: ")[1].split(b"\r\n")[0])
                if dur:
                    tm.sleep(dur)
                worker.notify()
                body = ("pid=%d age=%d marker=%s" % (os_.getpid(), worker.age, worker.cfg.proc_name)).encode()
                c.sendall(b"HTTP/1.1 200 OK\r\nContent-Length: %d\r\nConnection: close\r\n\r\n%s" % (len(body), body))
                self.served.append((s.now, os_.getpid(), worker.age, worker.cfg.proc_name))
        except OSError:
            pass
        finally:
            try:
                c.close()
            except OSError:
                pass


def _default_app(environ, start_response):
    body = b"ok"
    start_response("200 OK", [("Content-Length", str(len(body)))])
    return [body]


# ---------------------------------------------------------------------- helpers for checks
def live_children(sim, pid):
    return [p for p in sim.procs.values() if p.ppid == pid and p.state == "running"]


def zombie_children(sim, pid):
    return [p for p in sim.procs.values() if p.ppid == pid and p.state == "zombie"]


def send_signal(sim, pid, sig, sender="env"):
    try:
        sim.kill(pid, int(sig), sender=sender)
    except ProcessLookupError:
        pass
