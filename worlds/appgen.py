"""Generators of WSGI *programs* (JSON-able specs interpreted by worlds.conn.make_app) and of client request
heads for the connection world (C02, C09, C18, C19)."""

STATUSES = ["200 OK", "200 OK", "200 OK", "201 Created", "404 Not Found", "500 Oops", "302 Found", "206 Partial Content"]
BODYLESS = ["204 No Content", "304 Not Modified"]
CHUNK_POOL = ["", "a", "hello", "0\r\n\r\n", "x" * 100, "\r\n", "HTTP/1.1 200 OK\r\n\r\n", "\xe9\xff", "y" * 5000]


def gen_program(rng, well_behaved=True, allow_fail=True, allow_file=True, allow_1xx=False):
    p = {}
    bodyless = rng.randrange(8) == 0
    p["status"] = rng.choice(BODYLESS) if bodyless else rng.choice(STATUSES)
    if bodyless and allow_1xx and rng.randrange(4) == 0:
        # an application that switches protocols through its WSGI response: a 1xx status has no body and no framing of its own
        p["status"] = "101 Switching Protocols"
    headers = [["Content-Type", rng.choice(["text/plain", "application/octet-stream"])]]
    if rng.randrange(3) == 0:
        headers.append(["X-App", rng.choice(["1", "caf\xe9", "a b", ""])])
    kind = rng.choice(["iter", "iter", "list", "write", "file" if allow_file else "iter"])
    p["kind"] = kind
    p["head_aware"] = True
    chunks = [rng.choice(CHUNK_POOL) for _ in range(rng.randrange(0, 5))]
    if bodyless:
        chunks = [c for c in chunks if c == ""]
    p["chunks"] = chunks
    total = sum(len(c) for c in chunks)
    if kind == "file":
        content = "".join(rng.choice(CHUNK_POOL) for _ in range(rng.randrange(0, 3)))
        if bodyless:
            content = ""
        off = rng.randrange(0, len(content) + 1) if content and rng.randrange(3) == 0 else 0
        p["file"] = {"content": content, "offset": off, "fileno": rng.randrange(4) != 0,
                     "blksize": rng.choice([1, 7, 8192]), "has_close": rng.randrange(5) != 0,
                     # a buffered file object the application has looked into (content sniffing) before rewinding to `offset`
                     "sniff": rng.choice([0, 0, 1, 4, 512])}
        total = len(content) - off
        p["chunks"] = []
        if not bodyless and rng.randrange(4) == 0:
            # a preamble sent through write() before the file wrapper is returned: it counts against the declared length like any body byte
            p["pre_write"] = [rng.choice(CHUNK_POOL[:5]) for _ in range(rng.randrange(1, 3))]
            total += sum(len(c) for c in p["pre_write"])
    cl = rng.randrange(4)
    p["cl"] = None
    if cl == 0:
        headers.append(["Content-Length", str(total)])
        p["cl"] = total
    elif cl == 1 and total > 1 and not bodyless:
        cut = rng.randrange(0, total)
        headers.append(["Content-Length", str(cut)])      # the application sends more than it declared: cut to
        p["cl"] = cut
    rng.shuffle(headers)
    p["headers"] = headers
    p["read_body"] = rng.choice(["none", "all", "some"])
    p["fail"] = None
    if allow_fail and rng.randrange(5) == 0:
        opts = ["before_sr", "after_sr", "end", "close"] + ["chunk:%d" % i for i in range(len(p["chunks"]))]
        p["fail"] = rng.choice(opts)
        if kind in ("file", "list") and p["fail"] not in ("before_sr", "after_sr"):
            p["fail"] = rng.choice(["before_sr", "after_sr"])
    return p


def expected_body(p, method):
    if p["kind"] == "file":
        f = p["file"]
        out = "".join(p.get("pre_write", [])).encode("latin-1") + f["content"].encode("latin-1")[f.get("offset", 0):]
    else:
        out = "".join(p["chunks"]).encode("latin-1")
    if method == "HEAD":
        return b""
    if p.get("cl") is not None:
        out = out[:p["cl"]]
    return out


def gen_request(rng, last=False, allow_head=True):
    method = rng.choice(["GET", "GET", "POST", "HEAD" if allow_head else "GET", "PUT"])
    version = "HTTP/1.1" if rng.randrange(4) else "HTTP/1.0"
    lines = ["%s /r%d HTTP/%s" % (method, rng.randrange(100), version[5:]), "Host: h"]
    body = ""
    if method in ("POST", "PUT"):
        body = rng.choice(["", "abc", "x" * 2000, "a=1&b=2"])
        if version == "HTTP/1.1" and rng.randrange(3) == 0:
            lines.append("Transfer-Encoding: chunked")
            wire_body = ("%x\r\n%s\r\n" % (len(body), body) if body else "") + "0\r\n\r\n"
        else:
            lines.append("Content-Length: %d" % len(body))
            wire_body = body
    else:
        wire_body = ""
    c = rng.randrange(6)
    conn = None
    if c == 0:
        conn = "close"
    elif c == 1:
        conn = "keep-alive"
    elif c == 2:
        conn = rng.choice(["Close", "Keep-Alive", "KEEP-ALIVE"])
    tokens = [conn.lower()] if conn else []
    if conn:
        k = rng.randrange(8)
        if k == 0:
            # Connection is a list of options (RFC 9110 7.6.1): 'close' may come with others, in any position, or on a second line
            other = rng.choice(["TE", "x-opt", "Upgrade"])
            conn = rng.choice(["%s, %s" % (conn, other), "%s, %s" % (other, conn), "%s , %s" % (other, conn), "%s,%s" % (conn, other)])
            tokens.append(other.lower())
        lines.append("Connection: " + conn)
        if k == 1:
            lines.append("Connection: close")
            tokens.append("close")
    if rng.randrange(12) == 0 and method in ("POST", "PUT"):
        lines.append("Expect: 100-continue")
    wants_close = "close" in tokens or (version == "HTTP/1.0" and "keep-alive" not in tokens)
    return {"bytes": "\r\n".join(lines) + "\r\n\r\n" + wire_body, "method": method,
            "version": [1, int(version[7])], "wants_close": wants_close, "body": body}
