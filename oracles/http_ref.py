"""oracles.http_ref — an independent, strict RFC 9112 request framer (DESIGN Appendix A).

No import from gunicorn, no shared regexes.  Strict where a byte can change framing or line structure
for some reader; lenient where RFC 9110 lets recipients retain data.  Every reject carries a stable
reason string (it becomes part of a finding key).

frame(data, proxy_protocol=False) -> (messages, terminal)
  message  : dict(start, head_end, end, framing, body, method, target, version, headers, trailers)
  terminal : ("END",) | ("INCOMPLETE", msg_index, phase) | ("REJECT", msg_index, phase, reason)
             phase is "head" or "body"
"""

TOKEN = frozenset(b"!#$%&'*+-.^_`|~0123456789abcdefghijklmnopqrstuvwxyzABCDEFGHIJKLMNOPQRSTUVWXYZ")
DIGITS = frozenset(b"0123456789")
HEXDIG = frozenset(b"0123456789abcdefABCDEF")
KNOWN_CODINGS = (b"chunked", b"gzip", b"deflate", b"compress", b"identity", b"x-gzip", b"x-compress")


class _Reject(Exception):
    def __init__(self, phase, reason):
        self.phase = phase
        self.reason = reason


class _Incomplete(Exception):
    def __init__(self, phase):
        self.phase = phase


def _is_token(b):
    return len(b) > 0 and all(c in TOKEN for c in b)


def _line(data, pos, phase):
    i = data.find(b"\r\n", pos)
    if i < 0:
        raise _Incomplete(phase)
    return data[pos:i], i + 2


def _ows_trim(v):
    return v.strip(b" \t")


def _field_lines(data, pos, phase):
    """Parse field lines up to and including the empty line.  Returns (fields, new_pos)."""
    fields = []
    while True:
        line, pos = _line(data, pos, phase)
        if line == b"":
            return fields, pos
        if line[:1] in (b" ", b"\t"):
            raise _Reject(phase, "obs-fold")
        c = line.find(b":")
        if c < 0:
            raise _Reject(phase, "field-no-colon")
        name, value = line[:c], line[c + 1:]
        if name == b"":
            raise _Reject(phase, "bad-field-name")
        if name[-1:] in (b" ", b"\t"):
            raise _Reject(phase, "ws-before-colon")
        if not _is_token(name):
            raise _Reject(phase, "bad-field-name")
        if b"\0" in value or b"\r" in value or b"\n" in value:
            raise _Reject(phase, "ctl-in-field-value")
        fields.append((name.lower(), _ows_trim(value)))


def _request_line(line):
    if b"\r" in line or b"\n" in line or b"\0" in line:
        raise _Reject("head", "ctl-in-request-line")
    parts = line.split(b" ")
    if len(parts) != 3:
        raise _Reject("head", "request-line-shape")
    method, target, version = parts
    if not _is_token(method):
        raise _Reject("head", "bad-method")
    if target == b"":
        raise _Reject("head", "empty-target")
    if not (len(version) == 8 and version[:5] == b"HTTP/" and version[5] in DIGITS
            and version[6:7] == b"." and version[7] in DIGITS):
        raise _Reject("head", "bad-version")
    major, minor = version[5] - 48, version[7] - 48
    if major != 1:
        raise _Reject("head", "bad-version")
    return method, target, (major, minor)


def _framing(version, fields):
    te = [v for n, v in fields if n == b"transfer-encoding"]
    cl = [v for n, v in fields if n == b"content-length"]
    if te:
        codings = []
        for v in te:
            for el in v.split(b","):
                el = _ows_trim(el)
                if el == b"":
                    continue        # RFC 9110 5.6.1: empty list elements are ignorable
                # transfer-coding = token *( OWS ";" OWS parameter ); parameters are not used by any
                # registered coding - treat an element with parameters as unknown
                if not _is_token(el):
                    raise _Reject("head", "te-coding-not-token")
                codings.append(el.lower())
        if not codings:
            raise _Reject("head", "te-empty")
        for c in codings:
            if c not in KNOWN_CODINGS:
                raise _Reject("head", "te-unknown")
        if codings.count(b"chunked") > 1:
            raise _Reject("head", "te-chunked-repeated")
        if b"chunked" in codings and codings[-1] != b"chunked":
            raise _Reject("head", "te-chunked-not-last")
        if codings[-1] != b"chunked":
            raise _Reject("head", "te-without-final-chunked")
        if version < (1, 1):
            raise _Reject("head", "te-on-http10")
        if cl:
            raise _Reject("head", "cl-and-te")
        return ("chunked", None)
    if cl:
        if len(cl) > 1:
            raise _Reject("head", "cl-repeated")
        v = cl[0]
        if len(v) == 0 or not all(c in DIGITS for c in v):
            raise _Reject("head", "cl-not-digits")
        return ("length", int(v))
    return ("none", 0)


def _chunked(data, pos, body):
    while True:
        line, pos = _line(data, pos, "body")
        if b"\r" in line or b"\n" in line or b"\0" in line:
            # bare CR / LF / NUL inside the chunk-size line (size or extension)
            raise _Reject("body", "ctl-in-chunk-ext")
        semi = line.find(b";")
        if semi >= 0:
            size = line[:semi].rstrip(b" \t")
        else:
            size = line
        if size == b"":
            raise _Reject("body", "chunk-size-empty")
        if not all(c in HEXDIG for c in size):
            raise _Reject("body", "chunk-size-not-hex")
        n = int(size, 16)
        if n == 0:
            # an unterminated trailer block cannot be judged: incompleteness comes first
            if data[pos:pos + 2] != b"\r\n" and data.find(b"\r\n\r\n", pos) < 0:
                raise _Incomplete("body")
            trailers, pos = _field_lines(data, pos, "body")
            return bytes(body), trailers, pos
        if len(data) - pos < n:
            body += data[pos:]
            raise _Incomplete("body")
        body += data[pos:pos + n]
        pos += n
        if len(data) - pos < 2:
            if data[pos:pos + 1] not in (b"", b"\r"):
                raise _Reject("body", "chunk-missing-crlf")
            raise _Incomplete("body")
        if data[pos:pos + 2] != b"\r\n":
            raise _Reject("body", "chunk-missing-crlf")
        pos += 2


def frame(data, proxy_protocol=False, max_messages=16):
    msgs = []
    pos = 0
    idx = 0
    n = len(data)
    while pos < n and idx < max_messages:
        start = pos
        m = {"start": start}
        try:
            line, p = _line(data, pos, "head")
            if proxy_protocol and idx == 0 and line.startswith(b"PROXY"):
                m["proxy_line"] = line
                line, p = _line(data, p, "head")
            method, target, version = _request_line(line)
            fields, p = _field_lines(data, p, "head")
            m.update(method=method, target=target, version=version, headers=fields, head_end=p)
            kind, length = _framing(version, fields)
            m["framing"] = kind
        except _Reject as r:
            return msgs, ("REJECT", idx, r.phase, r.reason)
        except _Incomplete as r:
            return msgs, ("INCOMPLETE", idx, "head")
        acc = bytearray()
        try:
            if kind == "chunked":
                body, trailers, p = _chunked(data, p, acc)
                m.update(body=body, trailers=trailers, end=p)
            elif kind == "length":
                if n - p < length:
                    m.update(body=data[p:], trailers=[], end=None, partial=True)
                    msgs.append(m)
                    return msgs, ("INCOMPLETE", idx, "body")
                m.update(body=data[p:p + length], trailers=[], end=p + length)
                p += length
            else:
                m.update(body=b"", trailers=[], end=p)
        except _Reject as r:
            m.update(body=bytes(acc), trailers=[], end=None, body_reject=r.reason, partial=True)
            msgs.append(m)
            return msgs, ("REJECT", idx, "body", r.reason)
        except _Incomplete:
            m.update(body=bytes(acc), trailers=[], end=None, partial=True)
            msgs.append(m)
            return msgs, ("INCOMPLETE", idx, "body")
        msgs.append(m)
        pos = p
        idx += 1
    return msgs, ("END",)
