"""oracles.resp_ref — strict reader of what the server put on the wire (DESIGN Appendix B).

parse(wire, reqs) -> (responses, problems, rest)
  reqs      : [{"method": "GET", "version": (1, 1)}, ...] in connection order (what the client sent)
  responses : dicts(version, code, reason, headers, framing, body, complete, start, end, interim)
  problems  : [(code, detail)] with stable codes
  rest      : bytes after the last parsed response
No gunicorn imports.
"""

TOKEN = frozenset(b"!#$%&'*+-.^_`|~0123456789abcdefghijklmnopqrstuvwxyzABCDEFGHIJKLMNOPQRSTUVWXYZ")
HEX = frozenset(b"0123456789abcdefABCDEF")


def _tok(b):
    return len(b) > 0 and all(c in TOKEN for c in b)


def parse_one(wire, pos, head_only):
    """Parse one response starting at pos.  Returns (resp|None, problems, newpos)."""
    probs = []
    he = wire.find(b"\r\n\r\n", pos)
    if he < 0:
        return {"complete": False, "partial_head": True, "start": pos, "end": len(wire), "code": None,
                "headers": [], "framing": None, "body": b"", "interim": False}, probs, len(wire)
    lines = wire[pos:he].split(b"\r\n")
    sl = lines[0]
    r = {"start": pos, "headers": [], "interim": False, "complete": False, "body": b"", "framing": None}
    ok = (len(sl) >= 12 and sl[:7] == b"HTTP/1." and sl[7:8].isdigit() and sl[8:9] == b" "
          and sl[9:12].isdigit() and (len(sl) == 12 or sl[12:13] == b" "))
    if not ok:
        probs.append(("bad-status-line", repr(sl[:80])))
        r.update(code=None, end=len(wire))
        return r, probs, len(wire)
    if any(c in sl for c in (b"\r", b"\n", b"\0")):
        probs.append(("ctl-in-status-line", repr(sl[:80])))
    r["version"] = (1, int(sl[7:8]))
    r["code"] = int(sl[9:12])
    r["reason"] = sl[13:]
    for ln in lines[1:]:
        if b"\r" in ln or b"\n" in ln or b"\0" in ln:
            probs.append(("ctl-in-header-line", repr(ln[:80])))
        c = ln.find(b":")
        if c <= 0 or not _tok(ln[:c]):
            probs.append(("bad-header-line", repr(ln[:80])))
            continue
        r["headers"].append((ln[:c].lower(), ln[c + 1:].strip(b" \t"), ln[:c]))
    names = [h[0] for h in r["headers"]]
    body_start = he + 4
    code = r["code"]
    if 100 <= code < 200:
        r.update(interim=True, complete=True, framing="none", end=body_start)
        return r, probs, body_start
    te = [h[1] for h in r["headers"] if h[0] == b"transfer-encoding"]
    cl = [h[1] for h in r["headers"] if h[0] == b"content-length"]
    if te and cl:
        probs.append(("te-and-cl", ""))
    if len(cl) > 1:
        probs.append(("dup-content-length", repr(cl)))
    if te and r["version"] == (1, 0):
        probs.append(("te-on-http10", ""))
    if head_only or code in (204, 304):
        r.update(framing="none", complete=True, end=body_start)
        return r, probs, body_start
    if te:
        if [t.lower() for t in te] != [b"chunked"]:
            probs.append(("bad-transfer-encoding", repr(te)))
        r["framing"] = "chunked"
        p = body_start
        body = bytearray()
        while True:
            e = wire.find(b"\r\n", p)
            if e < 0:
                r.update(body=bytes(body), end=len(wire))
                return r, probs, len(wire)
            size = wire[p:e]
            if not size or not all(c in HEX for c in size):
                probs.append(("bad-chunk-size", repr(size[:40])))
                r.update(body=bytes(body), end=len(wire))
                return r, probs, len(wire)
            n = int(size, 16)
            p = e + 2
            if n == 0:
                if wire[p:p + 2] == b"\r\n":
                    r.update(body=bytes(body), complete=True, end=p + 2)
                    return r, probs, p + 2
                if len(wire) - p < 2:
                    r.update(body=bytes(body), end=len(wire))
                    return r, probs, len(wire)
                probs.append(("bad-chunk-trailer", repr(wire[p:p + 20])))
                r.update(body=bytes(body), end=len(wire))
                return r, probs, len(wire)
            if len(wire) - p < n + 2:
                body += wire[p:p + n]
                r.update(body=bytes(body), end=len(wire))
                return r, probs, len(wire)
            body += wire[p:p + n]
            if wire[p + n:p + n + 2] != b"\r\n":
                probs.append(("bad-chunk-terminator", repr(wire[p + n:p + n + 2])))
                r.update(body=bytes(body), end=len(wire))
                return r, probs, len(wire)
            p += n + 2
    if cl:
        v = cl[0]
        if not v.isdigit():
            probs.append(("bad-content-length", repr(v)))
            r.update(framing="length", end=len(wire))
            return r, probs, len(wire)
        n = int(v)
        r["framing"] = "length"
        r["declared"] = n
        body = wire[body_start:body_start + n]
        r["body"] = body
        if len(body) == n:
            r.update(complete=True, end=body_start + n)
            return r, probs, body_start + n
        r["end"] = len(wire)
        return r, probs, len(wire)
    r.update(framing="close", body=wire[body_start:], complete=None, end=len(wire))
    return r, probs, len(wire)


def parse(wire, reqs):
    out = []
    probs = []
    pos = 0
    i = 0
    while pos < len(wire) and i < len(reqs):
        start = pos
        r, p, pos = parse_one(wire, pos, head_only=(reqs[i]["method"] == "HEAD"))
        if reqs[i]["method"] == "HEAD" and r.get("code") and r["code"] >= 400 and is_error_page(r):
            # gunicorn's own error page always carries its body and closes the connection, whatever the
            # request method was: read it as sent
            r, p, pos = parse_one(wire, start, head_only=False)
        probs.extend(p)
        out.append(r)
        if r.get("interim"):
            if tuple(reqs[i].get("version") or (1, 1)) < (1, 1):
                # RFC 9110 15.2: a server MUST NOT send a 1xx response to an HTTP/1.0 client
                probs.append(("interim-response-to-http-1.0", repr(r.get("code"))))
            continue
        i += 1
        if r["code"] is None or r["complete"] is not True:
            break
    rest = wire[pos:]
    return out, probs, rest


def server_lines_ok(r):
    """Server-generated header discipline: exactly one each of Server, Date, Connection (worker responses)."""
    probs = []
    names = [h[0] for h in r["headers"]]
    for n in (b"server", b"date", b"connection"):
        c = names.count(n)
        if c != 1:
            probs.append(("server-header-count:%s=%d" % (n.decode(), c), ""))
    for h in r["headers"]:
        if h[0] == b"connection" and h[1].lower() not in (b"close", b"keep-alive", b"upgrade"):
            probs.append(("bad-connection-value", repr(h[1])))
    return probs


def header(r, name):
    return [h[1] for h in r["headers"] if h[0] == name]


def is_error_page(r):
    """util.write_error's fixed shape: no Server/Date line, Content-Type: text/html, status >= 400."""
    h = {n: v for n, v, _ in r["headers"]}
    return (b"server" not in h and h.get(b"content-type") == b"text/html"
            and r.get("code") is not None and r["code"] >= 400)
