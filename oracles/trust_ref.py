"""oracles.trust_ref — reference mapping for C08 (who may set scheme, script name, client address).

Written from the documentation of forwarded_allow_ips, forwarder_headers, header_map, secure_scheme_headers,
proxy_protocol and proxy_allow_ips in gunicorn/config.py; no gunicorn imports.

expect(peer, cfg, headers, proxy_decl) -> dict
  peer       : ("ip", port) or "" (unix socket)
  cfg        : dict(forwarded_allow_ips=[...], forwarder_headers=[...UPPER...], header_map="drop"|"refuse",
                    secure_scheme_headers={UPPER: value}, proxy_protocol=bool, proxy_allow_ips=[...])
  headers    : [(name, value)] as sent
  proxy_decl : None or (client_ip, client_port) declared by an *accepted* PROXY line on this connection
"""


def ip_allowed(peer, allow):
    return "*" in allow or not isinstance(peer, tuple) or peer[0] in allow


def expect(peer, cfg, headers, proxy_decl, path="/app/page"):
    trusted = ip_allowed(peer, cfg["forwarded_allow_ips"])
    out = {"trusted": trusted}
    # --- scheme
    ssh = cfg["secure_scheme_headers"]
    verdicts = []
    for n, v in headers:
        if n.upper() in ssh:
            verdicts.append(v.strip(" \t") == ssh[n.upper()])
    if not trusted or not verdicts:
        out["scheme"] = "http"
        out["scheme_conflict"] = False
    else:
        out["scheme_conflict"] = len(set(verdicts)) > 1
        out["scheme"] = "https" if verdicts[0] else "http"
    # --- script name
    fwd = cfg["forwarder_headers"]
    sn = [v.strip(" \t") for n, v in headers if n.upper() == "SCRIPT_NAME"]
    if trusted and sn and ("SCRIPT_NAME" in fwd or "*" in fwd):
        out["script_name"] = sn[-1]
        out["script_name_mismatch"] = not path.startswith(sn[-1])
    else:
        out["script_name"] = ""
        out["script_name_mismatch"] = False
    # --- client address
    if proxy_decl is not None:
        out["remote_addr"], out["remote_port"] = proxy_decl[0], str(proxy_decl[1])
    elif isinstance(peer, tuple):
        out["remote_addr"], out["remote_port"] = peer[0], str(peer[1])
    else:
        out["remote_addr"], out["remote_port"] = peer, None
    # --- underscore policy: which sent names may reach the environ at all
    allowed_names = []
    refused = False
    for n, v in headers:
        if "_" in n:
            if trusted and (n.upper() in fwd or "*" in fwd):
                allowed_names.append((n, v, True))
            elif cfg["header_map"] == "refuse":
                refused = True
            # drop: never there
        else:
            allowed_names.append((n, v, False))
    out["must_refuse"] = refused
    out["may_appear"] = allowed_names
    return out
