"""C17 — the pid file names the running master, exclusively and atomically (W5; fault enumeration)."""
import errno

from simkit.core import Result, h64
from worlds.pidfs import PidWorld
from gunicorn.pidfile import Pidfile

ID = "C17"
LEVEL = "fault_enumeration"
DESIGN_REF = "DESIGN.md §4 C17"
QUICK_RUNS = 160000
THOROUGH_MIN_RUNS = 100000
BATCH = 2000
CASE_WALL_S = 30.0
EXHAUSTIVE = True
RULE = ("case = a seeded history of {create, validate, rename, unlink, foreign overwrite, owner death, pid recycled, stale "
        "or garbage pre-existing file} by 2-3 master instances on one path (operations atomic w.r.t. each other, as the "
        "property quantifies), checked step by step against a reference model of the path's content; then for the LAST "
        "create/rename of the history ONE RUN PER SYSTEM CALL INDEX k - the instance dies right after its k-th system call "
        "(only effects the kernel had applied survive) - and one run per file-system call failing with ENOSPC / EACCES: "
        "exhaustive over crash points of that operation.  evaluations counts histories; fault_fire_counts counts the "
        "enumerated crash/error runs.  distinct = distinct histories by hash; non-trivial = >= 2 operations.  One case in sixteen is "
        "the family 'concurrent': 2-3 masters call create() at the same moment and their system calls interleave under the seeded "
        "scheduler; whenever the path exists it must hold one instance's complete pid line (or the stale content found), and no "
        "temporary file may be left")
ASSUMPTIONS = [
    "in the history families operations of different instances do not interleave at system-call granularity (the property quantifies over "
    "sequences of operations; the read-then-unlink window between two instances exists for every possible implementation); the "
    "'concurrent' family interleaves create() calls only, and judges only what every interleaving must preserve (complete content)",
    "rename(2) is atomic; a crash loses nothing the kernel had applied and applies nothing else; write(2) of the few bytes "
    "of a pid file is all-or-error (ENOSPC/EACCES raise), never short",
    "liveness of a recorded pid is kill(pid, 0): ESRCH = dead, success or EPERM = alive",
]
COMPONENTS = {"real": ["gunicorn.pidfile.Pidfile.create/validate/rename/unlink"],
              "stub": ["file system (SimFS: mkstemp, write, rename, chmod, unlink, open/read)", "process table (kill(pid, 0))"]}

PATH = "/run/g.pid"
PATH2 = "/run/g.pid.2"


def make_concurrent_case(index, rng, tier):
    return {"family": "concurrent", "n": rng.randrange(2, 4), "pre": rng.choice([None, None, "garbage", "4242\n", ""]),
            "fine": rng.choice([1, 2, 3]), "fine_long": rng.randrange(2) == 0, "ops": []}


def run_concurrent(case, choices):
    """2-3 masters start at the same moment on one path: their create() calls interleave at system-call granularity (seeded).  Whatever the
    interleaving, the path - whenever it exists - holds the complete pid line of one of them (or the stale content that was there before)."""
    from simkit.kernel import Sim
    from simkit import facade, seams
    res = Result()
    sim = Sim(choices, max_steps=20000, max_time=20.0)
    seams.install_kernel_seams()
    facade.SIM["sim"] = sim
    sim.fine_interleave = case["fine"]
    sim.fine_long = bool(case.get("fine_long"))
    pre = case["pre"]
    if pre is not None:
        from simkit.kernel import Inode
        n0 = Inode("file", 0o644, 0, 0)
        n0.data = bytearray(pre.encode())
        n0.path = PATH
        sim.fs[PATH] = n0
    outcome = {}
    procs = []

    def inst_main(i):
        pf = Pidfile(PATH)
        try:
            pf.create(seams.OS.getpid())
            outcome[i] = "created"
        except RuntimeError as e:
            outcome[i] = "refused"
        seams.TIME.sleep(5.0)             # the instance keeps running (its pid stays alive for the others' validate())
    for i in range(case["n"]):
        procs.append(sim.spawn_proc((lambda i=i: inst_main(i)), "inst%d" % i, 1, {"PWD": "/"}))
    valid = {("%d\n" % p.pid).encode() for p in procs}
    if pre is not None:
        valid.add(pre.encode())
    bad = []

    def observer(s, actor, kind, detail):
        n = s.fs.get(PATH)
        if n is not None and bytes(n.data) not in valid and not bad:
            bad.append((actor, kind, detail, bytes(n.data)))
    sim.observers.append(observer)
    try:
        sim.run(until=lambda: len(outcome) == case["n"])
        if sim.crash:
            from simkit.core import HarnessError
            raise HarnessError(sim.crash)
        ctx = "n=%d pre=%r fine=%s outcomes=%r pids=%r" % (case["n"], pre, case["fine"], outcome, [p.pid for p in procs])
        for name, tb in sim.escaped:
            res.violate("C17:concurrent:exception-escaped", "%s: %s; %s" % (name, tb[-300:], ctx))
        if bad:
            res.violate("C17:concurrent:incomplete-content", "while %d masters were starting at the same time the pid file held %r right after "
                        "%s %s %r: neither a complete pid line of one of them nor what was there before; %s"
                        % (case["n"], bad[0][3], bad[0][0], bad[0][1], bad[0][2], ctx))
        n = sim.fs.get(PATH)
        created = [i for i, o in outcome.items() if o == "created"]
        if created and (n is None or bytes(n.data) not in {("%d\n" % procs[i].pid).encode() for i in created}):
            res.violate("C17:concurrent:final-content", "instances %r created the pid file, yet it finally holds %r; %s"
                        % (created, bytes(n.data) if n else None, ctx))
        left = sorted(pth for pth in sim.fs if pth.startswith("/run/") and pth != PATH)
        if left:
            res.violate("C17:concurrent:temp-file-left", "temporary files left next to the pid file: %r; %s" % (left, ctx))
        res.nontrivial = True
        res.faults.update(sim.faults)
        res.probes["concurrent_creates"] += 1
        res.from_log(sim.log)
        res.states.add(h64("concurrent", tuple(sorted(outcome.values())), pre))
        res.sample = {"family": "concurrent", "instances": case["n"], "pre": pre, "outcomes": outcome}
    finally:
        sim.shutdown()
    return res


def make_case(index, rng, tier):
    if index % 16 == 15:
        return make_concurrent_case(index, rng, tier)
    ninst = rng.randrange(2, 4)
    ops = []
    pre = rng.randrange(7)
    if pre == 6:
        ops.append(["foreign", PATH, rng.choice(["0\n", "0", "\n", " "])])       # no process at all (kill(0, 0) probes our own group)
    elif pre == 0:
        ops.append(["foreign", PATH, "garbage"])
    elif pre == 1:
        ops.append(["foreign", PATH, "4242\n"])          # dead pid
    elif pre == 2:
        ops.append(["foreign", PATH, ""])
    elif pre == 3:
        ops.append(["foreign", PATH, "own:0"])           # names instance 0's (recycled) pid
    elif pre == 4:
        ops.append(["foreign", PATH, "1\n"])             # a live process of another user (init): kill() says EPERM
    for _ in range(rng.randrange(2, 9)):
        i = rng.randrange(ninst)
        k = rng.randrange(12)
        if k < 4:
            ops.append(["create", i])
        elif k < 5:
            ops.append(["validate", i])
        elif k < 7:
            ops.append(["unlink", i])
        elif k < 8:
            ops.append(["rename", i, rng.choice([PATH, PATH2])])
        elif k < 9:
            ops.append(["foreign", rng.choice([PATH, PATH2]), rng.choice(["999\n", "own:%d" % rng.randrange(ninst), "junk", "12", "1\n", "prefix:%d" % rng.randrange(ninst), "prefixlive:%d" % rng.randrange(ninst)])])
        elif k < 10:
            ops.append(["death", i])
        elif k < 11:
            ops.append(["recycle", i])
        else:
            ops.append(["create2", i])                 # create at the '.2' name (upgrade child)
    return {"ninst": ninst, "ops": ops, "uids": [rng.choice([0, 0, 1000, 1001]) for _ in range(ninst)]}


def run(case, choices):
    if case.get("family") == "concurrent":
        return run_concurrent(case, choices)
    res = Result()
    final_target = None
    for j in range(len(case["ops"]) - 1, -1, -1):
        if case["ops"][j][0] in ("create", "create2", "rename"):
            final_target = j
            break
    first = _play(case, choices, res, None, None, final_target)
    n_sys = first["syscalls_of_target"]
    res.faults["fault_free_history"] += 1
    if final_target is not None and not res.violations:
        for k in range(0, n_sys + 1):
            _play(case, choices, res, ("crash", k), None, final_target)
            res.faults["crash_at_pidfile_syscall"] += 1
            res.probes["crash_at_pidfile_syscall_k"] += 1
        for k in range(1, first["fscalls_of_target"] + 1):
            for code in (errno.ENOSPC, errno.EACCES):
                _play(case, choices, res, ("fail", k, code), None, final_target)
                res.faults["fs_error:%s" % errno.errorcode[code]] += 1
    res.nontrivial = len(case["ops"]) >= 2
    res.digest = h64(case["ops"], first["trace"])
    res.shape = h64(case["ops"])
    res.states.add(h64(first["trace"][-1] if first["trace"] else None, n_sys))
    res.steps = len(case["ops"])
    res.sample = {"instances": case["ninst"], "ops": case["ops"], "trace": first["trace"][-6:],
                  "crash_points_enumerated": n_sys + 1}
    return res


def _play(case, choices, res, fault, _unused, target):
    w = PidWorld(choices)
    sim = w.sim
    pids = [100 + i for i in range(case["ninst"])]
    alive = {}
    pf = {}
    created = {}        # instance -> its last create() returned (a master whose create() raised does not run on)
    for i, pid in enumerate(pids):
        w.add_instance("m%d" % i, pid, case.get("uids", [0] * 8)[i])
        alive[i] = True
        pf[i] = None
    trace = []
    out = {"syscalls_of_target": 0, "fscalls_of_target": 0, "trace": trace}
    ctx = lambda: "ops=%r fault=%r trace=%r" % (case["ops"], fault, trace[-8:])

    def model_live(pidnum):
        p = sim.procs.get(pidnum)
        return p is not None and p.state == "running"

    def parse(c):
        if c is None:
            return None
        try:
            return int(c.decode())
        except ValueError:
            return "garbage"

    for j, op in enumerate(case["ops"]):
        kind = op[0]
        if kind == "foreign":
            data = op[2]
            if data.startswith("own:"):
                data = "%d\n" % pids[int(data[4:]) % len(pids)]
            elif data.startswith("prefix:"):
                data = "%d7\n" % pids[int(data[7:]) % len(pids)]          # another pid that merely starts with ours (dead)
            elif data.startswith("prefixlive:"):
                big = int("%d7" % pids[int(data[11:]) % len(pids)])
                if big not in sim.procs:
                    w.add_instance("big%d" % big, big)                      # ... and one that is alive
                data = "%d\n" % big
            w.foreign_write(op[1], data.encode())
            trace.append(("foreign", op[1], data))
            continue
        i = op[1]
        name = "m%d" % i
        if kind == "death":
            if alive[i]:
                sim.procs[pids[i]].state = "gone"
                alive[i] = False
            trace.append(("death", i))
            continue
        if kind == "recycle":
            if not alive[i]:
                # the pid number is given to a new, unrelated process (which also restarts gunicorn: a fresh Pidfile object)
                w.add_instance(name, pids[i], case.get("uids", [0] * 8)[i])
                alive[i] = True
                pf[i] = None
                created[i] = False
                res.probes["pid_recycled"] += 1
            trace.append(("recycle", i))
            continue
        if not alive[i]:
            trace.append(("skip-dead", kind, i))
            continue
        if kind in ("rename", "unlink") and not created.get(i):
            trace.append(("skip-not-created", kind, i))       # only a master whose create() returned uses these
            continue
        is_target = (j == target and fault is not None)
        crash_at = fault[1] if is_target and fault[0] == "crash" else None
        fail_at = fault[1] if is_target and fault[0] == "fail" else None
        fail_errno = fault[2] if is_target and fault[0] == "fail" else errno.ENOSPC
        path = PATH2 if kind == "create2" else PATH
        if kind in ("create", "create2"):
            if pf[i] is None or pf[i].fname != path:
                pf[i] = Pidfile(path)
            before = w.content(path)
            bp = parse(before)
            fs_calls = {"n": 0}
            outcome, val = w.as_instance(name, lambda: pf[i].create(pids[i]), crash_at, fail_at, fail_errno)
            after = w.content(path)
            if j == target and fault is None:
                out["syscalls_of_target"] = w.syscalls
                out["fscalls_of_target"] = 6
            trace.append((kind, i, outcome, before, after))
            want = ("%d\n" % pids[i]).encode()
            created[i] = outcome == "ok"
            if outcome == "crashed":
                alive[i] = False
                if after not in (None, before, want):
                    res.violate("C17:torn-content", "after a crash at system call %r of create the pid file holds %r (previous %r, new %r); %s"
                                % (crash_at, after, before, want, ctx()))
                continue
            if isinstance(bp, int) and bp != pids[i] and model_live(bp):
                # names another live process: must refuse, file untouched
                if outcome != "raised":
                    res.violate("C17:create-over-live", "create() succeeded although %s names live pid %d; %s" % (path, bp, ctx()))
                elif after != before:
                    res.violate("C17:refused-but-modified", "create() refused but changed the file; %s" % ctx())
                continue
            if outcome == "raised" and fail_at is None:
                res.violate("C17:stale-not-taken-over:%s" % ("absent" if before is None else "garbage" if bp == "garbage" else "dead-pid"),
                            "create() raised %r although the file named no other live process (before=%r); %s" % (val, before, ctx()))
                continue
            if outcome == "raised":
                if after not in (None, before, want):
                    res.violate("C17:torn-content", "after %s at file-system call %d of create the pid file holds %r; %s"
                                % (errno.errorcode.get(fail_errno), fail_at, after, ctx()))
                continue
            if after != want:
                res.violate("C17:wrong-content", "after create() the file holds %r, expected %r; %s" % (after, want, ctx()))
        elif kind == "validate":
            if pf[i] is None:
                pf[i] = Pidfile(PATH)
            before = w.content(pf[i].fname)
            bp = parse(before)
            outcome, val = w.as_instance(name, lambda: pf[i].validate())
            trace.append((kind, i, outcome, val))
            if outcome == "ok":
                exp = bp if isinstance(bp, int) and model_live(bp) else None
                if val != exp and not (exp is None and not val):
                    # validate() is only ever asked "does this name a running process": any false value is a no (a file that holds 0
                    # makes it return that 0 - the probe of the caller's own process group succeeds - and create() goes on)
                    res.violate("C17:validate", "validate() returned %r, file holds %r (live=%s); %s" % (val, before, exp is not None, ctx()))
            if w.content(pf[i].fname) != before:
                res.violate("C17:validate-modified", "validate() changed the file; %s" % ctx())
        elif kind == "unlink":
            if pf[i] is None:
                continue
            path = pf[i].fname
            before = w.content(path)
            outcome, val = w.as_instance(name, lambda: pf[i].unlink())
            after = w.content(path)
            trace.append((kind, i, outcome, before, after))
            mine = before == ("%d\n" % pids[i]).encode() or (before is not None and parse(before) == pids[i])
            if after is None and before is not None and not mine:
                res.violate("C17:deleted-foreign-file", "unlink() removed a pid file that holds %r, not this instance's pid %d; %s"
                            % (before, pids[i], ctx()))
            if after is not None and after != before:
                res.violate("C17:unlink-modified", "unlink() changed the file content; %s" % ctx())
        elif kind == "rename":
            if pf[i] is None:
                continue
            newp = op[2]
            oldp = pf[i].fname
            b_old, b_new = w.content(oldp), w.content(newp)
            outcome, val = w.as_instance(name, lambda: pf[i].rename(newp), crash_at, fail_at, fail_errno)
            a_old, a_new = w.content(oldp), w.content(newp)
            if j == target and fault is None:
                out["syscalls_of_target"] = w.syscalls
                out["fscalls_of_target"] = 8
            trace.append((kind, i, outcome, (b_old, b_new), (a_old, a_new)))
            want = ("%d\n" % pids[i]).encode()
            if outcome == "crashed":
                alive[i] = False
            old_mine = b_old is not None and parse(b_old) == pids[i]
            if oldp != newp and a_old is None and b_old is not None and not old_mine:
                res.violate("C17:deleted-foreign-file", "rename() removed %s which holds %r, not this instance's pid; %s" % (oldp, b_old, ctx()))
            if a_new not in (None, b_new, want):
                res.violate("C17:torn-content", "after rename() (%s) the new path holds %r; %s" % (outcome, a_new, ctx()))
            bp = parse(b_new)
            if outcome == "ok" and isinstance(bp, int) and bp != pids[i] and model_live(bp) and a_new != b_new:
                res.violate("C17:create-over-live", "rename() overwrote %s naming live pid %d; %s" % (newp, bp, ctx()))
    return out


def shrink(case):
    if case.get("family") == "concurrent":
        if case["n"] > 2:
            yield dict(case, n=2)
        if case["pre"] is not None:
            yield dict(case, pre=None)
        return
    ops = case["ops"]
    for i in range(len(ops)):
        yield dict(case, ops=ops[:i] + ops[i + 1:])
