"""C01 — request framing is unambiguous and RFC 9112-exact (W1; refinement against oracles.http_ref)."""
from simkit.core import Result, EventLog, h64, b2j, j2b, bsafe
from oracles import http_ref
from worlds import httpgen
from worlds.stream import make_cfg, observe

ID = "C01"
LEVEL = "exploration"
DESIGN_REF = "DESIGN.md §4 C01, Appendix A"
QUICK_RUNS = 400000
THOROUGH_MIN_RUNS = 300000
BATCH = 2000
CASE_WALL_S = 20.0
RULE = ("case = a stream of 1-4 pipelined messages from a grammar with obfuscation operators on Content-Length / "
        "Transfer-Encoding names, values and lists, chunk-size lines, extensions, terminators, trailers, request-line "
        "separators and versions (every odd byte class), x a safe parser configuration x a seeded segmentation x "
        "optional EOF at a seeded offset, read by the real RequestParser from a simulated connection; one-sided "
        "refinement against the independent strict framer: every request gunicorn yields must be accepted by the "
        "reference with the same head end, body bytes and end offset; reference-rejected heads must not be yielded; "
        "reference-rejected bodies must not be delivered as complete.  A floor of canonical streams must be accepted. "
        "distinct = distinct (stream, cfg) by hash; non-trivial = the reference or gunicorn gets past the first "
        "request line (>= 1 request yielded or a framing-level reject)")
ASSUMPTIONS = [
    "one-sided: gunicorn being stricter than RFC 9112 is never a violation (except on the canonical floor set)",
    "persistence is not compared: gunicorn may stop after any message; only the prefix it yielded is compared",
    "input-dominated property: the simulated connection contributes pipelining position, unreader residue, "
    "segmentation and EOF at any offset (prefix-only relaxation)",
    "documented-unsafe parser switches are excluded (left at defaults)",
]
COMPONENTS = {"real": ["gunicorn.http.parser", "gunicorn.http.message", "gunicorn.http.body", "gunicorn.http.unreader"],
              "stub": ["peer + network (CutSock)"], "oracle": ["oracles.http_ref (no gunicorn imports)"]}

CFGS = [{}, {}, {}, {"header_map": "refuse"}, {"limit_request_line": 200}, {"limit_request_fields": 8},
        {"limit_request_field_size": 100}, {"proxy_protocol": True, "proxy_allow_ips": "*"},
        {"forwarded_allow_ips": "*"}]

FLOOR = None


def floor_cases():
    global FLOOR
    if FLOOR is None:
        c = httpgen.CANONICAL
        out = [[m] for m in c]
        ka = [m for m in c if b"HTTP/1.1" in m and b"close" not in m]
        for i in range(len(ka)):
            out.append([ka[i], ka[(i + 1) % len(ka)], ka[(i + 3) % len(ka)]])
        FLOOR = out
    return FLOOR


def make_case(index, rng, tier):
    fl = floor_cases()
    if index < len(fl):
        return {"msgs": [b2j(m) for m in fl[index]], "cfg": {}, "floor": True, "eof_at": None,
                "seg": ["max", "bytes1", "k"][index % 3]}
    grid = httpgen.grid_streams()
    if index - len(fl) < 3 * len(grid):
        g = index - len(fl)
        return {"msgs": [b2j(m) for m in grid[g % len(grid)]], "cfg": {}, "floor": False, "eof_at": None, "grid": True,
                "seg": ["max", "bytes1", "k"][g // len(grid)]}
    msgs = httpgen.gen_stream(rng, 4, hostile=True)
    cfg = rng.choice(CFGS)
    if cfg.get("proxy_protocol") and rng.randrange(2):
        msgs.insert(0, b"PROXY TCP4 1.2.3.4 5.6.7.8 11 22\r\n")
        if rng.randrange(2):
            # ... and once more in front of a later request of the same connection, where it is not a PROXY header but a malformed
            # request line (well-formed requests before it, so that the parser gets that far)
            msgs = [msgs[0]] + httpgen.gen_stream(rng, 3, hostile=False)
            msgs.insert(rng.randrange(2, len(msgs) + 1), rng.choice([b"PROXY TCP4 9.9.9.9 5.6.7.8 33 44\r\n", b"PROXY UNKNOWN\r\n",
                                                                     b"PROXY TCP6 ::1 ::1 33 44\r\n"]))
    total = sum(len(m) for m in msgs)
    eof = rng.randrange(1, total) if rng.randrange(6) == 0 and total > 1 else None
    out = {"msgs": [b2j(m) for m in msgs], "cfg": cfg, "floor": False, "eof_at": eof,
           "seg": rng.choice(["max", "max", "k", "small", "bytes1"])}
    if rng.randrange(12) == 0:
        out["eof_at"] = None
        out["seg"] = rng.choice(["k", "small", "small"])
        out["interrupt_at"] = rng.randrange(2, 9)
    return out


def _cuts(case, n, choices):
    seg = case["seg"]
    if seg == "max" or n < 2:
        return ()
    if seg == "bytes1":
        return tuple(range(1, n)) if n < 1500 else tuple(range(1, n, 5))
    if seg == "small":
        out, p = [], 0
        while p < n:
            p += 1 + choices.choose(30)
            out.append(p)
        return tuple(c for c in out if c < n)
    k = 1 + choices.choose(6)
    return tuple(sorted({1 + choices.choose(n - 1) for _ in range(k)}))


def run(case, choices):
    res = Result()
    log = EventLog()
    full = b"".join(j2b(m) for m in case["msgs"])
    data = full if case["eof_at"] is None else full[:case["eof_at"]]
    truncated = case["eof_at"] is not None
    cfgd = case["cfg"]
    cfg = make_cfg(**cfgd)
    if truncated:
        res.faults["eof_injected"] += 1
    cuts = _cuts(case, len(data), choices)
    res.faults["segmentation:" + case["seg"]] += 1
    ref, rterm = http_ref.frame(data, proxy_protocol=bool(cfgd.get("proxy_protocol")))
    intr = case.get("interrupt_at")
    if intr:
        from worlds.stream import CutSock
        res.faults["read_interrupted_by_application_timer"] += 1
        obs, term, sock = observe(cfg, data, cuts, sock=CutSock(data, cuts, interrupt_at=intr))
        # only what happens AFTER the interruption is judged in such a run: the application got an exception out of wsgi.input (or the
        # head never arrived); the one thing that must not happen is that the bytes of that body are read as another request
        # the true next request - the bytes right behind the interrupted request's body as the reference frames it - is legitimate
        legit = False
        if term[0] == "reject" and len(term) > 3 and term[3] is not None and 0 < len(obs) <= len(ref):
            pos = ref[len(obs) - 1]["end"]
            legit = data[pos:].startswith(("%s %s " % (term[3].get("method"), term[3].get("uri"))).encode("latin-1", "replace"))
        # (a request whose head the reference does not accept at all - the known te-without-final-chunked finding hands such requests over -
        #  has no reference framing to compare the next request's position with: not judged here)
        beyond_ref = len(obs) > len(ref)
        if beyond_ref:
            res.probes["interrupted_read_of_a_request_the_reference_rejects"] += 1
        if term[0] == "reject" and term[1] == "ReadInterrupted" and len(term) > 3 and term[3] is not None and not legit and not beyond_ref:
            res.violate("C01:request-after-interrupted-body-read",
                        "a timer of the application fired while wsgi.input was blocked in recv() (request %d); the application went on, the "
                        "worker asked for the next request and the parser yielded %r out of the unread body instead of ending the connection; "
                        "stream=%s cfg=%r seg=%s recv#%d" % (len(obs) - 1, term[3], bsafe(data, 260), cfgd, case["seg"], intr))
        res.nontrivial = True
        res.from_log(log)
        res.shape = h64(data, sorted(cfgd.items()), case["seg"], intr)
        return res
    obs, term, sock = observe(cfg, data, cuts)
    log.add("ref", "terminal", rterm)
    log.add("parser", "terminal", (len(obs), term[:2] if len(term) > 1 else term))
    if term[0] == "reject" and len(term) > 3 and term[2] == "body" and term[3] is not None:
        res.violate("C01:request-after-body-framing-error:" + term[1],
                    "reading the body of request %d raised %s (broken framing); an application that catches that and answers normally lets the "
                    "worker ask for the next request of the connection - and the parser yields %r from the bytes behind the broken body "
                    "instead of ending the connection; %s"
                    % (len(obs) - 1, term[1], term[3], "stream=%s cfg=%r seg=%s" % (bsafe(data, 260), cfgd, case["seg"])))
    ctx = lambda: "stream=%s cfg=%r seg=%s eof_at=%r" % (bsafe(data, 260), cfgd, case["seg"], case["eof_at"])

    for i, o in enumerate(obs):
        if i >= len(ref):
            # gunicorn yielded a request whose head the reference did not accept
            if rterm[0] == "REJECT" and len(obs) > i + 1:
                # whatever is made of a head a strict reading rejects (some are handed over and the connection closed: listed findings),
                # the bytes BEHIND it have no defined framing: nothing further may be read from them as a request
                import re as _re
                codings = [c.strip().lower() for v in _re.findall(rb"(?im)^transfer-encoding[ \t]*:(.*)$", data[(ref[i - 1]["end"] if i > 0 else 0):o["head_end"]])
                           for c in v.decode("latin-1").split(",") if c.strip()]
                ident = rterm[3] == "te-without-final-chunked" and codings and all(c == "identity" for c in codings)
                res.violate("C01:request-after-rejected-head:" + rterm[3] + (":identity" if ident else ""),
                            "request %d (%s %r) was handed over although a strict reading rejects its head (%s), and the connection was not "
                            "ended there: %d further request(s) were parsed from the bytes behind it (next: %s %r); %s"
                            % (i, o["method"], o["uri"][:40], rterm[3], len(obs) - i - 1, obs[i + 1]["method"], obs[i + 1]["uri"][:40], ctx()))
            if rterm[0] == "REJECT":
                res.violate("C01:accepted:" + rterm[3],
                            "request %d (%s %r) was handed over although a strict reading rejects its head: %s; %s"
                            % (i, o["method"], o["uri"][:40], rterm[3], ctx()))
            elif rterm[0] == "INCOMPLETE":
                res.violate("C01:accepted:incomplete-head", "request %d yielded from an incomplete head; %s" % (i, ctx()))
            else:
                res.violate("C01:accepted:beyond-end", "request %d yielded beyond the end of the stream; %s" % (i, ctx()))
            break
        rm = ref[i]
        if o["head_end"] != rm["head_end"] or o["method"] != rm["method"].decode("latin-1") \
                or o["uri"] != rm["target"].decode("latin-1"):
            res.violate("C01:mismatch:head",
                        "request %d: gunicorn head ends at %d (%s %r), reference at %d (%r %r); %s"
                        % (i, o["head_end"], o["method"], o["uri"][:40], rm["head_end"], rm["method"], rm["target"][:40], ctx()))
            break
        if o["body"] is None:
            break        # gunicorn failed while reading the body: stricter or equal, nothing delivered as complete
        if rm.get("body_reject"):
            res.violate("C01:accepted:" + rm["body_reject"],
                        "request %d: body delivered as complete (%d bytes) although a strict reading rejects it: %s; %s"
                        % (i, len(o["body"]), rm["body_reject"], ctx()))
            break
        if rm.get("partial"):
            res.probes["eof_inside_body"] += 1
            if not rm["body"].startswith(o["body"]):
                res.violate("C01:mismatch:body-after-eof:" + rm["framing"],
                            "request %d: after EOF the delivered body %s is not a prefix of the reference body %s; %s"
                            % (i, bsafe(o["body"], 60), bsafe(rm["body"], 60), ctx()))
            if len(obs) > i + 1:
                res.violate("C01:accepted:after-incomplete-body", "a request was yielded after an incomplete body; %s" % ctx())
            break
        if o["body"] != rm["body"]:
            res.violate("C01:mismatch:body:" + rm["framing"],
                        "request %d: body %s (%d) vs reference %s (%d); %s"
                        % (i, bsafe(o["body"], 60), len(o["body"]), bsafe(rm["body"], 60), len(rm["body"]), ctx()))
            break
        if o["end"] != rm["end"]:
            res.violate("C01:mismatch:end:" + rm["framing"],
                        "request %d ends at %r, reference at %r; %s" % (i, o["end"], rm["end"], ctx()))
            break
    if case.get("floor"):
        want = len(ref)
        if rterm != ("END",) or want != len(case["msgs"]):
            res.violate("C01:floor:reference", "the reference does not accept a canonical stream: %r; %s" % (rterm, ctx()))
        else:
            # gunicorn may stop after a message that asks to close (HTTP/1.0 without keep-alive): count what it must yield
            must = 0
            for k, m in enumerate(ref):
                must += 1
                # persistence is gunicorn's own decision (not compared): stop where it says it will close
                if k < len(obs) and obs[k]["close"]:
                    break
            if len(obs) < must or any(o["body"] is None for o in obs[:must]):
                res.violate("C01:floor:%s" % "/".join(map(str, term[:2])),
                            "canonical stream not fully accepted: %d of %d requests, terminal %r; %s"
                            % (len(obs), must, term, ctx()))
    res.nontrivial = bool(obs) or (rterm[0] == "REJECT" and rterm[3] not in ("request-line-shape", "bad-method"))
    res.from_log(log)
    res.shape = h64(data, sorted(cfgd.items()))
    res.states.add(h64(rterm[0], rterm[3] if rterm[0] == "REJECT" else rterm[-1], term[0], len(obs)))
    if rterm[0] == "REJECT":
        res.probes["ref_reject:" + rterm[3]] += 1
    res.sample = {"stream": bsafe(data, 200), "cfg": cfgd, "reference": list(map(str, rterm)),
                  "gunicorn": [len(obs)] + list(map(str, term)), "seg": case["seg"]}
    return res


def shrink(case):
    msgs = [j2b(m) for m in case["msgs"]]
    for cand in httpgen.shrink_stream(msgs):
        yield dict(case, msgs=[b2j(m) for m in cand])
    if case["cfg"]:
        yield dict(case, cfg={})
    if case["seg"] != "max":
        yield dict(case, seg="max")
    if case["eof_at"] is not None:
        yield dict(case, eof_at=None)
