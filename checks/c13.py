"""C13 — the threaded worker accounts for every connection and never stops serving (W3; schedules x histories)."""
import signal

from simkit.core import Result, h64
from simkit.kernel import Sim, current_task
from simkit import preempt
from simkit import facade
from worlds import worker as W

ID = "C13"
LEVEL = "exploration"
DESIGN_REF = "DESIGN.md §4 C13"
QUICK_RUNS = 16000
THOROUGH_MIN_RUNS = 60000
BATCH = 100
CASE_WALL_S = 60.0
ISOLATE = True      # every run in a forked child: no interpreter state leaks from one simulated server to the next
RULE = ("case = the real ThreadWorker.run() main loop and real handler threads (baton-scheduled simulated threads over a "
        "simulated selector / executor / RLock) serving 1-6 scripted client actors issuing {connect, send request whole or in "
        "pieces, wait, keep-alive second request, close, reset, go silent}, applications that return at once or block for "
        "simulated seconds, optional TERM at a seeded time, threads 1-3, worker_connections 2-5, keepalive 0-3; every "
        "scheduler decision among runnable simulated threads, forced pre-emption points at seeded system-call indices, a fine-grained mode (switch after any simulated system call with probability 1/2 or 1/4) and "
        "short reads and accept() losing the race for a shared listener (EAGAIN after readable) are drawn from the seed.  Invariants are checked on every kernel event, bounded liveness only where no "
        "fault is in flight.  distinct = distinct event-trace shapes (actor, event kind sequence); non-trivial = at least one "
        "connection was accepted")
ASSUMPTIONS = [
    "pre-emption between simulated threads happens only at simulated system calls / lock operations / executor and selector "
    "operations (a subset of the points where CPython can switch threads)",
    "selector fidelity: fd numbers are reused lowest-first, registering a mapped fd raises KeyError, a closed description leaves "
    "the interest set (epoll); executor fidelity: FIFO queue, <= max_workers threads, done-callbacks run in the completing "
    "thread or at once in the caller if already done, shutdown(wait=False) lets queued items run",
    "the main loop period is 1 s (poller.select timeout); 'keep-alive time has passed' is judged with 2 loop periods + 0.25 s slack",
    "liveness of dispatch is judged in two separately keyed regimes: under capacity (connections < worker_connections) and at capacity",
    "wall-clock steps are not injected (keep-alive deadlines use time.time(); clock faults are not in this property's quantifier)",
]
COMPONENTS = {"real": ["ThreadWorker.run/accept/on_client_socket_readable/enqueue_req/murder_keepalived/finish_request/handle/handle_request",
                       "TConn", "Worker.init_process/init_signals/handle_exit", "gunicorn.http.*", "gunicorn.http.wsgi", "sock.create_sockets"],
              "stub": ["kernel (sockets, pipes, signals, clock)", "selectors.DefaultSelector (SimSelector)",
                       "concurrent.futures ThreadPoolExecutor/Future/wait (SimExecutor)", "threading.RLock (SimRLock)", "clients", "parent process"]}

FAST = "GET /a HTTP/1.1\r\nHost: h\r\n\r\n"


def req(path="/a", version="1.1", close=False):
    return "GET %s HTTP/%s\r\nHost: h\r\n%s\r\n" % (path, version, "Connection: close\r\n" if close else "")


def gen_client(rng, t0, silent_ok):
    ops = [["wait", round(t0, 2)], ["connect"]]
    k = rng.randrange(10)
    if k == 0 and silent_ok:
        ops.append(["await-eof", rng.choice([3.0, 8.0])])      # connects and stays silent
        return ops, 0.0, True
    total_app = 0.0
    nreq = rng.choice([1, 1, 2, 2, 3])
    for i in range(nreq):
        path = rng.choice(["/a", "/a", "/b", "/sleep/0.3", "/sleep/1.2", "/chunked/x", "/sleep/2.0"])
        if path.startswith("/sleep/"):
            total_app += float(path[7:])
        last = i == nreq - 1
        r = req(path, "1.1" if rng.randrange(6) else "1.0", close=(last and rng.randrange(3) == 0))
        if rng.randrange(4) == 0:
            cut = rng.randrange(1, len(r))
            ops += [["send", r[:cut]], ["wait", round(rng.uniform(0.05, 1.5), 2)], ["send", r[cut:]]]
        elif not last and rng.randrange(3) == 0:
            # pipelined: the next request is already in the socket buffer when this one finishes
            path2 = rng.choice(["/a", "/b", "/sleep/0.3"])
            if path2.startswith("/sleep/"):
                total_app += float(path2[7:])
            ops.append(["send", r + req(path2)])
            ops.append(["recv", 30.0])
        else:
            ops.append(["send", r])
        ops.append(["recv", 30.0])
        if not last and rng.randrange(3) == 0:
            ops.append(["wait", round(rng.uniform(0.1, 2.5), 2)])
    end = rng.randrange(8)
    if end == 0:
        ops.append(["reset"])
    elif end < 4:
        ops.append(["close"])
    else:
        ops.append(["await-eof", 12.0])
    return ops, total_app, False


def make_case(index, rng, tier):
    threads = rng.randrange(1, 4)
    wc = rng.randrange(2, 6)
    ka = rng.choice([0, 1, 2, 3])
    at_capacity = rng.randrange(7) == 0
    ncli = rng.randrange(1, wc) if not at_capacity else rng.randrange(wc, wc + 3)
    ncli = max(1, min(ncli, 7))
    clients = []
    for i in range(ncli):
        ops, app, silent = gen_client(rng, rng.uniform(0.1, 4.0), silent_ok=True)
        clients.append({"ops": ops, "app": app, "silent": silent})
    term = round(rng.uniform(0.3, 7.0), 2) if rng.randrange(2) == 0 else None
    binds = 2 if rng.randrange(4) == 0 else 1
    if binds == 2 and len(clients) >= 2 and rng.randrange(2):
        # two clients arrive at the same instant, one on each listening address
        i = rng.randrange(len(clients) - 1)
        clients[i + 1]["ops"][0][1] = clients[i]["ops"][0][1]
    return {"threads": threads, "worker_connections": wc, "keepalive": ka, "clients": clients, "term": term, "binds": binds,
            "graceful_timeout": rng.choice([1, 2, 4]), "at_capacity": at_capacity,
            "buggify": {"pyticks": rng.randrange(3) == 0, "short_recv": rng.randrange(3) == 0, "spurious_select": False,
                        "accept_eagain": rng.randrange(4) == 0, "accept_econnaborted": rng.randrange(5) == 0},
            "preempt": rng.randrange(0, 6), "fine": rng.choice([0, 0, 0, 2, 4]), "fine_long": rng.randrange(2) == 0}


def run(case, choices):
    res = Result()
    sim = Sim(choices, max_steps=200000, max_time=200.0)
    sim.buggify = dict(case["buggify"])
    if case["buggify"].get("pyticks"):
        preempt.enable()
        sim.py_ticks = True          # eval-breaker points inside gunicorn's Python code are delivery / pre-emption points too
    sim.fine_interleave = case.get("fine", 0)
    sim.fine_long = bool(case.get("fine_long"))
    wc, ka, gt = case["worker_connections"], case["keepalive"], case["graceful_timeout"]
    w = W.WorkerWorld(sim, "gthread", {"timeout": 30, "graceful_timeout": gt, "keepalive": ka, "threads": case["threads"],
                                       "worker_connections": wc},
                      extra_addrs=[("127.0.0.1", 8001)] if case.get("binds", 1) == 2 else ())
    for i in range(case["preempt"]):
        sim.preempt_at.add(1 + choices.choose(4000, "preempt"))
    p = w.start_worker()
    clients = [w.add_client("c%d" % i, c["ops"], addr=w.addrs[i % 2] if len(w.addrs) > 1 else None) for i, c in enumerate(case["clients"])]
    open_socks = {}          # fd -> dict(name, at)
    active = {}              # fd -> task name of the handler currently between handle-begin and handle-end
    state = {"max_open": 0, "term_at": None, "spin": None, "accepted": 0, "closed_by": {}, "ready_seen": {}}
    regime = "at-capacity" if case["at_capacity"] else "under-capacity"
    ctx = lambda: "threads=%d worker_connections=%d keepalive=%s graceful=%s term=%r regime=%s clients=%r t=%.2f" % (
        case["threads"], wc, ka, gt, case["term"], regime, [c["ops"] for c in case["clients"]][:4], sim.now)

    def quiescent_check(s):
        wk = w.worker
        if wk is None or wk.tpool is None or active:
            return
        tp = wk.tpool
        if tp.queue or tp.idle != tp.nthreads:
            return
        kernel_open = len([fd for fd, e in p.fds.items() if e.ofd.kind == "stream"])
        s.probe("quiescent_point_checked")
        if wk.nr_conns != kernel_open:
            res.violate("C13:nr_conns-mismatch:%s" % ("high" if wk.nr_conns > kernel_open else "low"),
                        "at a quiescent point nr_conns=%d but %d accepted sockets are open; %s" % (wk.nr_conns, kernel_open, ctx()))

    def observer(s, actor, kind, detail):
        t = current_task()
        ex = state.get("excess_at")
        if ex is not None:
            if len(open_socks) <= wc:
                state["excess_at"] = None
            elif s.now > ex[0] + 1e-9:
                res.violate("C13:over-capacity", "%d connections open at once since t=%.3f, worker_connections=%d; %s" % (ex[1], ex[0], wc, ctx()))
                state["excess_at"] = None
        if kind == "accept" and actor == "worker":
            fd = detail[1]
            open_socks[fd] = {"name": detail[0], "at": s.now}
            state["accepted"] += 1
            n = len(open_socks)
            state["max_open"] = max(state["max_open"], n)
            if n == wc:
                s.probe("at_capacity_iteration")
            if n > wc and state.get("excess_at") is None:
                # a handler thread that has already given its slot back (nr_conns -= 1) but has not executed close() yet is a
                # transient of zero duration: judged only if the excess outlives the instant
                state["excess_at"] = (s.now, n)
        elif kind == "sock-close" and actor == "worker":
            fd = detail
            if fd in open_socks:
                holder = active.get(fd)
                me = t.name if t is not None else "?"
                if holder is not None and holder != me:
                    res.violate("C13:closed-while-handling",
                                "socket fd %d (%s) was closed by %s while %s was handling a request on it; %s"
                                % (fd, open_socks[fd]["name"], me, holder, ctx()))
                if holder is not None and holder == me:
                    s.probe("handler_closes_own_socket")
                armed = None
                for (afd, oid), v in list(w.w3.armed.items()):
                    if afd == fd:
                        armed = v
                        del w.w3.armed[(afd, oid)]
                if armed is not None and w.w3.in_murder and t is not None and t.is_main:
                    deadline = armed[1]
                    wall = s.epoch + s.now
                    if wall < deadline - 1e-6:
                        res.violate("C13:keepalive-reaped-early",
                                    "keep-alive connection fd %d closed %.3f s before its deadline; %s" % (fd, deadline - wall, ctx()))
                    if any(h for h in active.values()):
                        s.probe("keepalive_expired_while_other_handler_running")
                state["ready_seen"].pop(fd, None)
                open_socks[fd]["closed_at"] = s.now
                state["closed_by"][open_socks[fd]["name"]] = (s.now, me)
                del open_socks[fd]
        elif kind == "sel-ready" and actor == "worker":
            for fd in detail:
                if fd in open_socks:
                    state["ready_seen"].setdefault(fd, (s.now, open_socks[fd]["name"]))
        elif kind == "sel-unregister" and actor == "worker":
            state["ready_seen"].pop(detail, None)
        elif kind == "handle-begin":
            active[detail] = actor
            for key in [k for k in w.w3.armed if k[0] == detail]:
                del w.w3.armed[key]          # re-dispatched: no longer an idle keep-alive connection
        elif kind == "handle-end":
            active.pop(detail, None)
        elif kind == "utime" and actor == "worker":
            quiescent_check(s)
    sim.observers.append(observer)

    # a main loop that never blocks (futures.wait([]) at capacity) burns CPU: the kernel charges it simulated time and reports it
    def on_spin(t):
        if t.is_main and t.proc is p and state["spin"] is None:
            state["spin"] = (sim.now, len(open_socks), getattr(w.worker, "nr_conns", None), len(getattr(w.worker, "futures", ())))
    sim.on_spin = on_spin
    orig_tick = sim.tick

    if case["term"] is not None:
        def term():
            if p.state == "running":
                state["term_at"] = sim.now
                sim.fault("worker_sigterm")
                sim.kill(p.pid, int(signal.SIGTERM))
        sim.after(case["term"], term)
    total_app = sum(c["app"] for c in case["clients"])
    t_end = {"v": None}

    def until():
        if p.state != "running":
            return True
        if state["spin"] is not None and t_end["v"] is None:
            t_end["v"] = sim.now + 6.0
        if all(c.done for c in clients) and t_end["v"] is None:
            t_end["v"] = sim.now + ka + 4.0
        if t_end["v"] is not None and sim.now >= t_end["v"]:
            return True
        return sim.now > 60.0
    try:
        why = sim.run(until=until)
        if sim.crash:
            raise W.HarnessError(sim.crash)
        wk = w.worker
        if why in ("step-cap",):
            res.violate("C13:no-progress:" + why, "simulation cap hit; %s" % ctx())
        for name, tb in sim.escaped:
            res.violate("C13:exception-escaped:%s" % name.split(".")[-1].rstrip("0123456789"),
                        "an exception escaped %s: %s; %s" % (name, tb[-500:], ctx()))
        if w.boot_error:
            res.violate("C13:worker-crashed", "run() raised: %s; %s" % (w.boot_error[-500:], ctx()))
        errs = [m for lvl, m in w.logs if lvl in ("ERROR", "CRITICAL") or "Traceback" in m]
        for m_ in errs[:1]:
            if "KeyError" in m_ or "ValueError" in m_ or "already registered" in m_:
                res.violate("C13:poller-misuse", "logged: %s; %s" % (m_[-300:], ctx()))
        termed = state["term_at"] is not None
        if state["spin"] is not None:
            at, n_open, nrc, nf = state["spin"]
            res.violate("C13:main-loop-spins:nr_conns>=worker_connections&futures-empty" if (nrc is not None and nrc >= wc and nf == 0)
                        else "C13:main-loop-spins:other",
                        "the main loop stopped blocking at t=%.2f (nr_conns=%r, worker_connections=%d, futures=%d): it neither polls nor "
                        "waits, so readable connections starve and the CPU burns; %s" % (at, nrc, wc, nf, ctx()))
        # a connection that the poller REPORTED readable to the main loop must be acted upon (taken off the poller and dispatched, or
        # closed): the loop may be unable to poll (the at-capacity finding), but it may not drop what a poll told it
        for fd_, (seen_, name_) in sorted(state["ready_seen"].items()):
            lim_ = state["term_at"] if termed else sim.now
            if lim_ - seen_ > 1.0 and p.state == "running":
                res.violate("C13:ready-connection-ignored", "select() reported connection fd %d (%s) readable at t=%.2f; %.1f s later the main "
                            "loop has neither dispatched nor closed it (nr_conns=%r, futures=%d); %s"
                            % (fd_, name_, seen_, lim_ - seen_, getattr(wk, "nr_conns", None), len(getattr(wk, "futures", ())), ctx()))
                break
        # ---- bounded liveness, evaluated only for what happened before TERM and outside the at-capacity regime
        for c, spec in zip(clients, case["clients"]):
            if termed:
                break
            if state["spin"] is not None:
                # the at-capacity regime of the known finding: request liveness is not judged there, but the spinning loop still runs its
                # keep-alive sweep every iteration, so an idle kept-alive connection must still be closed (that is what frees capacity again)
                st_ = c.stream
                if c.script and c.script[-1][0] == "await-eof" and not spec["silent"] and c.responses and c.responses[-1]["complete"] \
                        and len(c.responses) == sum(1 for o in c.script if o[0] == "recv") and c.responses[-1]["at"] is not None \
                        and st_ is not None and not st_.eof and not st_.rst and not st_.closed and c.eof_at is None \
                        and sim.now >= c.responses[-1]["at"] + ka + 3.0 and c.script[-1][1] >= ka + 3.0 \
                        and b"keep-alive" in c.responses[-1].get("headers", {}).get(b"connection", b"").lower():
                    res.violate("C13:keepalive-not-closed:at-capacity", "client %s: the idle kept-alive connection is still open %.1f s after "
                                "its last response (keepalive=%s) while the worker sits at capacity: capacity is never freed; %s"
                                % (c.name, sim.now - c.responses[-1]["at"], ka, ctx()))
                continue
            if c.stream is not None and c.stream.peer in sim.stolen:
                continue          # taken by a (not simulated) sibling worker sharing the listener
            sends = [e for e in c.log if e[1] == "sent"]
            for r in c.responses:
                if r.get("timeout") and regime == "under-capacity":
                    res.violate("C13:starved-readable:under-capacity",
                                "client %s sent a complete request and got no response within 30 s although connections < "
                                "worker_connections; log=%r; %s" % (c.name, c.log[-6:], ctx()))
                elif r.get("timeout"):
                    res.violate("C13:starved-readable:at-capacity", "client %s got no response within 30 s at capacity; log=%r; %s"
                                % (c.name, c.log[-6:], ctx()))
            # a request that arrived on a kept-alive connection well before its keep-alive deadline must be served
            if regime == "under-capacity":
                sent_t = [e[0] for e in c.log if e[1] == "sent"]
                n_complete_sends = 0
                send_times = []
                acc = ""
                for op_ in spec["ops"]:
                    pass
                # reconstruct per-request send completion times from the client's log and script
                reqs_in_send = [op_[1].count("\r\n\r\n") for op_ in spec["ops"] if op_[0] == "send"]
                send_op = []
                for k_, nreq_ in enumerate(reqs_in_send):
                    if k_ < len(sent_t):
                        send_times += [sent_t[k_]] * nreq_
                        send_op += [k_] * nreq_
                for i_, r_ in enumerate(c.responses):
                    if i_ == 0 or r_["status"] is not None:
                        continue
                    prev = c.responses[i_ - 1]
                    if not prev["complete"] or prev["at"] is None or i_ >= len(send_times):
                        continue
                    kept = b"keep-alive" in prev.get("headers", {}).get(b"connection", b"").lower()
                    if kept and send_times[i_] <= prev["at"] + ka - 0.5 and (r_.get("eof") or r_.get("rst")):
                        same = send_op[i_] == send_op[i_ - 1]
                        res.violate("C13:pending-request-dropped:%s" % ("pipelined-in-one-segment" if same else "separate-send"),
                                    "client %s: request %d was sent at t=%.2f on a connection the server had just kept alive (response %d at "
                                    "t=%.2f, keepalive=%s) and the server closed it without answering; log=%r; %s"
                                    % (c.name, i_, send_times[i_], i_ - 1, prev["at"], ka, c.log[-6:], ctx()))
            # ... also when its head arrives in two parts: the client finds the connection closed while it is still sending
            if regime == "under-capacity":
                for j_, e_ in enumerate(c.log):
                    if e_[1] not in ("send-failed", "send-on-reset"):
                        continue
                    nresp = sum(1 for x in c.log[:j_] if x[1] == "response")
                    ridx = max([k for k, x in enumerate(c.log[:j_]) if x[1] == "response"], default=None)
                    if ridx is None or nresp == 0 or nresp > len(c.responses):
                        continue
                    prev = c.responses[nresp - 1]
                    part = [x for x in c.log[ridx + 1:j_] if x[1] == "sent"]
                    kept = prev["complete"] and prev["at"] is not None and b"keep-alive" in prev.get("headers", {}).get(b"connection", b"").lower()
                    if kept and part and part[0][0] <= prev["at"] + ka - 0.5:
                        res.violate("C13:pending-request-dropped:split-head",
                                    "client %s: the first part of its next request was sent at t=%.2f on a connection the server had kept alive "
                                    "(response at t=%.2f, keepalive=%s); when the rest followed at t=%.2f the server had closed the connection; "
                                    "log=%r; %s" % (c.name, part[0][0], prev["at"], ka, e_[0], c.log[-6:], ctx()))
            # idle keep-alive connections are closed once the keep-alive time has passed
            reached = any(e[1] in ("eof", "no-eof") for e in c.log)
            if c.script and c.script[-1][0] == "await-eof" and reached and not spec["silent"] and c.responses \
                    and c.responses[-1]["complete"] and len(c.responses) == sum(1 for o in c.script if o[0] == "recv"):
                last = c.responses[-1]
                if last["at"] is not None:
                    kept = b"keep-alive" in last.get("headers", {}).get(b"connection", b"").lower()
                    if c.eof_at is None:
                        if regime == "under-capacity":
                            res.violate("C13:keepalive-not-closed", "client %s: the idle connection was still open %.1f s after the last "
                                        "response (keepalive=%s); %s" % (c.name, c.script[-1][1], ka, ctx()))
                    elif kept and c.eof_at - last["at"] > ka + 2.0 + 0.25 and regime == "under-capacity":
                        res.violate("C13:keepalive-closed-late", "client %s: idle keep-alive connection closed %.2f s after the response, "
                                    "keepalive=%s (+2 loop periods allowed); %s" % (c.name, c.eof_at - last["at"], ka, ctx()))
                    elif kept and c.eof_at - last["at"] < ka - 1e-6:
                        res.violate("C13:keepalive-reaped-early", "client %s: kept-alive connection closed %.2f s after the response, "
                                    "before keepalive=%s passed; %s" % (c.name, c.eof_at - last["at"], ka, ctx()))
        if not termed and state["spin"] is None and p.state == "running" and all(c.done for c in clients):
            kernel_open = len([fd for fd, e in p.fds.items() if e.ofd.kind == "stream"])
            silent_open = sum(1 for c in clients if c.stream is not None and not c.stream.closed)
            if silent_open == 0 and (kernel_open != 0 or wk.nr_conns != 0):
                res.violate("C13:connections-not-released", "all clients left, yet nr_conns=%d and %d accepted sockets are still open "
                            "%.1f s later; %s" % (wk.nr_conns, kernel_open, ka + 4.0, ctx()))
        if termed:
            never = False
            if p.state == "running" and state["spin"] is None and sim.now - state["term_at"] > gt + total_app + 3.0 and not never:
                res.violate("C13:no-exit-after-term", "TERM at t=%.2f, the worker process is still running at t=%.2f "
                            "(graceful_timeout=%s); %s" % (state["term_at"], sim.now, gt, ctx()))
            sim.probe("term_delivered")
        res.nontrivial = state["accepted"] > 0
        res.sim_s = sim.now
        res.faults.update(sim.faults)
        res.probes.update(sim.probes)
        res.states.add(h64(case["threads"], wc, ka, state["max_open"], termed, regime))
        res.from_log(sim.log)
        res.sample = {"threads": case["threads"], "worker_connections": wc, "keepalive": ka, "term": case["term"], "regime": regime,
                      "clients": [c["ops"][:6] for c in case["clients"]][:3], "accepted": state["accepted"],
                      "responses": sum(len(c.responses) for c in clients), "sim_seconds": round(sim.now, 2)}
    finally:
        sim.shutdown()
    return res


def shrink(case):
    cl = case["clients"]
    for i in range(len(cl)):
        if len(cl) > 1:
            yield dict(case, clients=cl[:i] + cl[i + 1:])
    if case["term"] is not None:
        yield dict(case, term=None)
    if case["preempt"]:
        yield dict(case, preempt=0)
    if case.get("fine"):
        yield dict(case, fine=0)
    if case["buggify"]["short_recv"]:
        yield dict(case, buggify=dict(case["buggify"], short_recv=False))
    for i, c in enumerate(cl):
        ops = c["ops"]
        for j in range(2, len(ops)):
            yield dict(case, clients=cl[:i] + [dict(c, ops=ops[:j] + ops[j + 1:])] + cl[i + 1:])
