"""C20 — workers always run with exactly the configured user and group (W4; configurations x histories)."""
import errno
import signal

from simkit.core import Result, h64
from simkit.kernel import Sim, current_task
from simkit import preempt
from worlds import master

ID = "C20"
LEVEL = "exploration"
DESIGN_REF = "DESIGN.md §4 C20"
QUICK_RUNS = 16000
THOROUGH_MIN_RUNS = 40000
BATCH = 100
CASE_WALL_S = 60.0
ISOLATE = True      # every run in a forked child: no interpreter state leaks from one simulated server to the next
RULE = ("case = the real Arbiter started as simulated root with user/group given as name, numeric id, or only one of the two, "
        "initgroups on/off, TCP or unix bind, under a seeded history of {worker killed, HUP, USR2 (new master), TTIN} that creates "
        "new worker generations, with EPERM injected into setgid / setuid / initgroups / chown at a seeded call.  Every worker runs "
        "the real child side of spawn_worker and the real Worker.init_process (set_owner_process) up to load_wsgi, where the "
        "application loader samples the simulated kernel's credentials of its own process.  distinct = distinct (configuration, "
        "history, fault) by hash; non-trivial = at least two worker generations loaded the application")
ASSUMPTIONS = [
    "POSIX: setuid/setgid with euid 0 set real, effective and saved ids; initgroups sets only the supplementary list, never the "
    "primary gid; a non-root process cannot change to unrelated ids",
    "user/group names are resolved by gunicorn.config against the sandbox's real passwd/group files (nobody, daemon, www-data); "
    "the simulated passwd database agrees with it for those entries",
    "a worker that fails to boot because a privilege call failed is acceptable; running application code with other ids is not",
    "real boot, stub run: after load_wsgi the worker follows the stub run loop (the credentials are sampled before)",
]
COMPONENTS = {"real": ["util.set_owner_process/chown", "Worker.init_process", "Arbiter.spawn_worker (both sides)/reload/reexec",
                       "WorkerTmp (chown of the heartbeat file)", "sock.UnixSocket.bind (chown of the socket file)", "Config uid/gid resolution"],
              "stub": ["kernel credentials / file ownership", "worker run loop after load_wsgi (2/3 of the cases; in 1/3 the real sync / gthread / gevent / eventlet worker serves clients and the identity is sampled at every application call)"]}

USERS = [None, 33, "www-data", "daemon", 1, 65534, "nobody", 1000, 54321, 3000000001]   # 54321 / 3000000001: no passwd entry
GROUPS = [None, 33, "www-data", "daemon", 1, 65534, "nogroup", 2000, 54321,
          3000000033, 2147483648]        # ids above 2**31 (user namespaces, directory services): ids are unsigned 32-bit numbers
NAME2UID = {"www-data": 33, "daemon": 1, "nobody": 65534}
NAME2GID = {"www-data": 33, "daemon": 1, "nogroup": 65534}


def make_case(index, rng, tier):
    user = rng.choice(USERS)
    group = rng.choice(GROUPS)
    evs = []
    t = 0.5
    for _ in range(rng.randrange(1, 5)):
        t += rng.uniform(0.3, 1.5)
        evs.append({"t": round(t, 2), "do": rng.choice(["killw", "hup", "usr2", "ttin", "killw", "hup_identity"])})
        if evs[-1]["do"] == "hup_identity":
            evs[-1]["user"] = rng.choice(USERS[1:])
            evs[-1]["group"] = rng.choice(GROUPS[1:])
    if any(e["do"] == "hup_identity" for e in evs) and rng.randrange(2) == 0:
        user = group = None            # start without an identity, a reload introduces one
    fault = None
    if rng.randrange(4) == 0:
        fault = {"op": rng.choice(["setgid", "setuid", "initgroups", "chown"]), "nth": rng.randrange(1, 5)}
    real = rng.choice([None, None, "sync", "gthread", "gevent", "eventlet"])
    return {"user": user, "group": group, "initgroups": rng.randrange(2) == 0, "unix": rng.randrange(2) == 0, "real": real,
            "via_env": rng.randrange(4) == 0 and not any(e["do"] == "hup_identity" for e in evs),
            "workers": rng.randrange(1, 3), "events": evs, "fault": fault,
            "buggify": {"pyticks": rng.randrange(3) == 0, "fork_child_first": rng.randrange(2) == 0, "random_spawn_delay": rng.randrange(2) == 0}}


def run(case, choices):
    res = Result()
    sim = Sim(choices, max_steps=200000, max_time=200.0)
    sim.buggify = dict(case["buggify"])
    if case["buggify"].get("pyticks"):
        preempt.enable()
        sim.py_ticks = True          # eval-breaker points inside gunicorn's Python code are delivery / pre-emption points too
    sim.passwd = {0: ("root", 0, [0]), 33: ("www-data", 33, [33, 4001]), 1: ("daemon", 1, [1]),
                  65534: ("nobody", 65534, [65534]), 1000: ("app", 1000, [1000, 2000, 2001])}
    bind = "unix:/run/g.sock" if case["unix"] else "127.0.0.1:8000"
    cfg = {"workers": case["workers"], "timeout": 30, "graceful_timeout": 1, "bind": [bind], "proc_name": "m0", "pidfile": "/run/g.pid",
           "initgroups": case["initgroups"]}
    via_env = case.get("via_env")
    if case["user"] is not None and not via_env:
        cfg["user"] = case["user"]
    if case["group"] is not None and not via_env:
        cfg["group"] = case["group"]
    w = master.World(sim, cfg)
    if via_env:
        # the identity comes from GUNICORN_CMD_ARGS in the environment the server was started with
        w.env_identity = {k: v for k, v in (("user", case["user"]), ("group", case["group"])) if v is not None}
        w.base_env["GUNICORN_CMD_ARGS"] = " ".join("--%s %s" % (k, v) for k, v in w.env_identity.items())
        sim.probe("identity_via_environment")
    ident = {"user": case["user"], "group": case["group"]}

    def wanted():
        u, g = ident["user"], ident["group"]
        return (NAME2UID.get(u, u) if u is not None else 0, NAME2GID.get(g, g) if g is not None else 0)
    want_uid, want_gid = wanted()
    loads = []
    calls = {"setgid": 0, "setuid": 0, "initgroups": 0, "chown": 0}
    fault = case["fault"]

    def sys_fail(p, op):
        if op in calls:
            calls[op] += 1
            if fault and fault["op"] == op and calls[op] == fault["nth"]:
                sim.probe("%s_eperm" % op)
                return errno.EPERM
        return None
    sim.sys_fail = sys_fail

    want_at_load = {}       # the identity a worker process must have is the one configured when it was created (an older generation keeps serving
                            # under the old identity while a reload that changes the identity is in progress)

    def on_load(p):
        a = None
        gen = "initial" if sim.now < case["events"][0]["t"] else "later"
        wk_cfg = None
        for mp_ in list(w.masters.values()):
            pass
        want_at_load[p.pid] = state_want(p)
        loads.append({"pid": p.pid, "name": p.name, "ppid": p.ppid, "t": sim.now, "uids": (p.ruid, p.euid, p.suid), "want": state_want(p),
                      "gids": (p.rgid, p.egid, p.sgid), "groups": sorted(p.groups), "gen": gen})
    def state_want(p):
        # the identity a worker must have: what the world configured for the master that forked it, as of that master's
        # last (re)load - NOT what the master believes (an upgraded master that lost part of its configuration is the bug)
        u, g = w.intended.get(p.ppid, (ident["user"], ident["group"]))
        return (NAME2UID.get(u, u) if u is not None else 0, NAME2GID.get(g, g) if g is not None else 0)
    w.on_app_load = on_load
    calls_seen = []
    eperm = []
    clients = []
    if case.get("real"):
        # the real worker of one of the four classes boots AND serves: the identity is sampled at every application call as well, and the
        # worker must keep working (heartbeat) with what it owns after dropping privileges
        w.use_real_workers(case["real"])
        if case["unix"]:
            w.addr = "/run/g.sock"
        sim.probe("real_worker_class:" + case["real"])
        tc = 0.3
        while tc < max(e["t"] for e in case["events"]) + 3.0:
            clients.append(w.add_client("c%d" % len(clients), [["wait", round(tc, 2)], ["connect"],
                                                              ["send", "GET /a HTTP/1.1\r\nHost: h\r\nConnection: close\r\n\r\n"], ["recv", 10.0]]))
            tc += 0.45

        def call_observer(s, actor, kind, detail):
            if kind == "app-begin":
                p = current_task().proc
                calls_seen.append({"pid": p.pid, "ppid": p.ppid, "t": s.now, "uids": (p.ruid, p.euid, p.suid), "gids": (p.rgid, p.egid, p.sgid),
                                   "groups": sorted(p.groups), "want": want_at_load.get(p.pid, state_want(p))})
            elif kind == "utime-eperm":
                eperm.append((s.now, actor, detail))
        sim.observers.append(call_observer)
    m = w.start_master()
    m.groups = [0, 4, 27]          # root's own supplementary groups (adm, sudo): nothing of them may survive in a worker that drops to a user with initgroups
    masters = [m]

    def observer(s, actor, kind, detail):
        if kind == "exec":
            p = current_task().proc
            if p not in masters:
                masters.append(p)
    sim.observers.append(observer)

    def do(ev):
        if m.state != "running" or int(signal.SIGCHLD) not in m.handlers:
            return
        k = ev["do"]
        if k == "killw":
            lw = sorted(master.live_children(sim, m.pid), key=lambda p: p.pid)
            lw = [p for p in lw if p not in masters]
            if lw:
                sim.fault("worker_killed")
                sim.kill(lw[0].pid, int(signal.SIGKILL))
        elif k == "hup_identity":
            w.cfgsrc["user"] = ev["user"]
            w.cfgsrc["group"] = ev["group"]
            ident["user"], ident["group"] = ev["user"], ev["group"]
            sim.fault("master_signal:hup_identity")
            sim.probe("hup_changes_identity")
            sim.kill(m.pid, int(signal.SIGHUP))
        else:
            sim.fault("master_signal:" + k)
            sim.kill(m.pid, int({"hup": signal.SIGHUP, "usr2": signal.SIGUSR2, "ttin": signal.SIGTTIN}[k]))
    for ev in case["events"]:
        sim.after(ev["t"], (lambda ev=ev: do(ev)))
    t_end = max(e["t"] for e in case["events"]) + 4.0
    ctx = lambda: "user=%r group=%r initgroups=%s unix=%s events=%r fault=%r t=%.2f" % (
        case["user"], case["group"], case["initgroups"], case["unix"], case["events"], fault, sim.now)
    try:
        sim.run(until=lambda: sim.now >= t_end)
        if sim.crash:
            raise master.HarnessError(sim.crash)
        spell = "%s/%s" % ("name" if isinstance(case["user"], str) else "id" if case["user"] is not None else "unset",
                           "name" if isinstance(case["group"], str) else "id" if case["group"] is not None else "unset")
        changed = any(e["do"] == "hup_identity" for e in case["events"])
        for l in loads:
            gen = "upgraded-master" if l["ppid"] != m.pid else l["gen"]
            want_uid, want_gid = l["want"]
            if set(l["uids"]) != {want_uid}:
                res.violate("C20:uid:%s:%s" % (spell, gen), "worker pid %d (%s) loaded the application with uids (real, effective, saved)=%r, "
                            "configured uid %r; %s" % (l["pid"], gen, l["uids"], want_uid, ctx()))
            if set(l["gids"]) != {want_gid}:
                res.violate("C20:gid:%s:%s" % ("initgroups" if case["initgroups"] else "no-initgroups", spell),
                            "worker pid %d (%s) loaded the application with gids (real, effective, saved)=%r, configured gid %r "
                            "(initgroups=%s); %s" % (l["pid"], gen, l["gids"], want_gid, case["initgroups"], ctx()))
            if case["initgroups"] and want_uid and want_uid not in sim.passwd and not changed and not fault:
                # a numeric uid without a passwd entry has no supplementary groups of its own - and must not keep the master's
                if not set(l["groups"]) <= {want_gid}:
                    res.violate("C20:groups:no-passwd-entry", "worker pid %d runs as uid %d (no passwd entry) with initgroups=True and still has "
                                "the supplementary groups %r of the master; %s" % (l["pid"], want_uid, l["groups"], ctx()))
            if case["initgroups"] and want_uid and want_uid in sim.passwd and not changed:
                # (with only a user configured the primary group stays the master's, 0, and initgroups() adds it to the user's list)
                exp = sorted(set(sim.passwd[want_uid][2]) | {want_gid})
                if l["groups"] != exp:
                    res.violate("C20:groups:%s" % spell, "worker pid %d: supplementary groups %r, expected %r for user %r; %s"
                                % (l["pid"], l["groups"], exp, sim.passwd[want_uid][0], ctx()))
        for c_ in calls_seen:
            want_uid, want_gid = c_["want"]
            if set(c_["uids"]) != {want_uid} or set(c_["gids"]) != {want_gid}:
                res.violate("C20:app-call-identity:%s" % case["real"],
                            "%s worker pid %d ran an application call at t=%.2f with uids %r gids %r, configured %r/%r; %s"
                            % (case["real"], c_["pid"], c_["t"], c_["uids"], c_["gids"], want_uid, want_gid, ctx()))
                break
        if eperm:
            res.violate("C20:heartbeat-eperm:%s" % case["real"],
                        "a %s worker could not update its heartbeat file after dropping privileges (EPERM at t=%.2f, file owner/euid %r); %s"
                        % (case["real"], eperm[0][0], eperm[0][2], ctx()))
        if case.get("real"):
            res.probes["app_calls_sampled"] += len(calls_seen)
            if not fault and loads and not calls_seen and clients and not changed and not any(e["do"] == "usr2" for e in case["events"]):
                answered = sum(1 for c in clients if c.responses and c.responses[0].get("status") == 200)
                res.violate("C20:real-worker-never-served:%s" % case["real"],
                            "workers booted with the configured identity but none of %d clients was served (%d answered): the worker does not "
                            "keep working after dropping privileges; logs=%r; %s"
                            % (len(clients), answered, [l for l in w.logs if l[0] in ("ERROR", "CRITICAL")][-2:], ctx()))
        if not fault and not loads and not (case["initgroups"] and case["user"] is None and case["group"] is not None):
            want_uid, want_gid = wanted()
            # floor: without any injected failure the configured identity must be reachable and workers must boot
            # (initgroups with a group but no user has no user name to look up: a refusal to boot is accepted there)
            res.violate("C20:no-worker-booted:%s" % spell, "no worker ever reached the application although no privilege call was made to "
                        "fail; master=%r logs=%r; %s" % ((m.state, m.status), [l for l in w.logs if l[0] in ("ERROR", "CRITICAL")][-2:], ctx()))
        for mp in masters:
            if (mp.ruid, mp.euid, mp.suid, mp.rgid, mp.egid, mp.sgid) != (0, 0, 0, 0, 0, 0):
                res.violate("C20:master-identity-changed", "master pid %d now runs as uids %r gids %r; %s"
                            % (mp.pid, (mp.ruid, mp.euid, mp.suid), (mp.rgid, mp.egid, mp.sgid), ctx()))
        # ownership of what the worker needs after dropping privileges
        for mp in masters:
            a = w.masters.get(mp.pid)
            if a is None or mp.state != "running":
                continue
            for pid, wk in a.WORKERS.items():
                ino = wk.tmp._tmp.ofd.obj
                want_uid, want_gid = wk.cfg.uid, wk.cfg.gid
                if (ino.uid, ino.gid) != (want_uid, want_gid) and (want_uid, want_gid) != (0, 0):
                    res.violate("C20:heartbeat-file-owner", "worker pid %d: heartbeat file owned by %d:%d, configured %d:%d; %s"
                                % (pid, ino.uid, ino.gid, want_uid, want_gid, ctx()))
        want_uid, want_gid = NAME2UID.get(case["user"], case["user"]) or 0, NAME2GID.get(case["group"], case["group"]) or 0
        if case["unix"] and "/run/g.sock" in sim.fs and m.state == "running" and not changed:
            n = sim.fs["/run/g.sock"]
            if (n.uid, n.gid) != (want_uid, want_gid):
                res.violate("C20:unix-socket-owner", "unix socket owned by %d:%d, configured %d:%d; %s" % (n.uid, n.gid, want_uid, want_gid, ctx()))
        res.nontrivial = len(loads) >= 2
        res.sim_s = sim.now
        res.faults.update(sim.faults)
        res.probes.update(sim.probes)
        res.probes["worker_generations_sampled"] += len(loads)
        res.states.add(h64(spell, case["initgroups"], case["unix"], len(masters), bool(fault), len(loads) > 2))
        res.from_log(sim.log)
        res.shape = h64(case["user"], case["group"], case["initgroups"], case["unix"], case["events"], fault, case["buggify"], case["workers"])
        res.sample = {"user": case["user"], "group": case["group"], "initgroups": case["initgroups"], "events": case["events"], "fault": fault,
                      "workers_sampled": [(l["pid"], l["uids"], l["gids"], l["groups"]) for l in loads][:4]}
    finally:
        sim.shutdown()
    return res


def shrink(case):
    ev = case["events"]
    for i in range(len(ev)):
        if len(ev) > 1:
            yield dict(case, events=ev[:i] + ev[i + 1:])
    if case["fault"]:
        yield dict(case, fault=None)
    if case["unix"]:
        yield dict(case, unix=False)
    for k, v in case["buggify"].items():
        if v:
            yield dict(case, buggify=dict(case["buggify"], **{k: False}))
    if case["workers"] > 1:
        yield dict(case, workers=1)
