"""C11 — hung workers are killed and replaced; healthy workers never are (W4 master side + W3 worker side; two-sided)."""
import signal

from simkit.core import Result, h64
from simkit.kernel import Sim, current_task
from simkit import preempt
from worlds import master, worker as W

ID = "C11"
LEVEL = "exploration"
DESIGN_REF = "DESIGN.md §4 C11, Appendix C"
QUICK_RUNS = 16000
THOROUGH_MIN_RUNS = 30000
BATCH = 100
CASE_WALL_S = 60.0
ISOLATE = True      # every run in a forked child: no interpreter state leaks from one simulated server to the next
RULE = ("two case families.  master (W4): the real Arbiter.run() with 1-3 scripted stub workers whose heartbeat patterns are "
        "drawn per worker: regular with gaps just under `timeout` (boundary), "
        "stops at time t (blocked application), hangs during boot, SIGSTOPped by the environment, ignores SIGABRT, exits on "
        "SIGABRT; timeout in {0, 1, 2, 3, 5}; wall-clock steps on time.time() in the master and signal storms (USR1/WINCH every 0.2-0.7 s) as faults; oracle two-sided: "
        "no kill while the silence is <= timeout; ABRT within timeout + 3 s of the last beat, KILL within 3 s more if still "
        "alive, pool back to size afterwards, healthy workers keep beating.  worker (W3): see checks/c11 worker family "
        "(real SyncWorker / ThreadWorker loops: maximum simulated gap between notify() calls < timeout for request "
        "durations < timeout).  distinct = distinct event-trace shapes; non-trivial = at least one worker with a "
        "non-default heartbeat pattern or a boundary gap")
ASSUMPTIONS = [
    "the master's loop period is 1 s (select timeout) plus spawn jitter; 'timeout plus a small bounded delay' is read as "
    "timeout + 3 s for ABRT and 3 s more for KILL",
    "a SIGSTOPped process keeps its pending SIGABRT until continued; SIGKILL acts at once (POSIX)",
    "heartbeat = utime() on the inherited temp file with time.monotonic(); wall-clock steps do not move monotonic time",
    "timeout = 0 disables the scan (documented)",
    "stub workers implement the contract of Appendix C; the worker family checks that the real workers honour it",
]
COMPONENTS = {"real": ["Arbiter.run/murder_workers/kill_worker/reap_workers/manage_workers/spawn_worker", "WorkerTmp (notify/last_update)",
                       "Worker.init_process/init_signals/handle_abort"],
              "stub": ["kernel", "worker run loop (scripted heartbeat patterns)"]}


def make_worker_case(index, rng, tier):
    timeout = rng.choice([1, 2, 3, 4, 6])
    kind = rng.choice(["sync", "gthread", "gevent", "eventlet"])
    clients = []
    t = 0.1
    for i in range(rng.randrange(0, 7)):
        d = round(rng.choice([0.0, 0.0, 0.3, 0.6, 0.9, 0.97]) * timeout, 3)
        clients.append({"t": round(t, 2), "dur": d})
        t += rng.uniform(0.05, 1.5 * timeout)
    sat = None
    if kind == "gthread" and rng.randrange(3) == 0:
        # every connection slot held by an idle keep-alive client for longer than the timeout: the worker is idle, not hung
        n = rng.randrange(1, 3)
        sat = {"n": n, "keepalive": timeout + rng.choice([1, 2, 3])}
    term_at = None
    if not sat and clients and rng.randrange(3) == 0:
        # the worker is retired (TERM, as after HUP / TTOU) while requests shorter than the timeout are in flight: it stays a healthy
        # worker until it exits and must keep its heartbeat up while it drains
        c = rng.choice(clients)
        term_at = round(c["t"] + rng.uniform(0.0, max(0.05, c["dur"])), 2)
    binds = 1
    if not sat and rng.randrange(3) == 0:
        # two listening addresses; some clients arrive on both at the same instant
        binds = 2
        for c in clients:
            c["addr"] = rng.randrange(2)
        if len(clients) >= 2 and rng.randrange(2):
            i = rng.randrange(len(clients) - 1)
            clients[i + 1]["t"] = clients[i]["t"]
            clients[i + 1]["addr"] = 1 - clients[i]["addr"]
    abort = None
    if rng.randrange(8) == 0:
        # the other side of the contract: a request hangs (in interruptible Python) for longer than the timeout and the master's SIGABRT
        # arrives: the worker ends - it does not shrug the signal off and carry on as a healthy worker that nobody replaces
        sat, term_at, binds = None, None, 1
        clients = [{"t": 0.2, "dur": float(3 * timeout)}]
        abort = round(0.2 + timeout + rng.uniform(0.1, 0.9), 2)
    return {"family": "worker", "kind": kind, "timeout": timeout, "clients": clients, "threads": rng.randrange(1, 3), "saturate": sat, "term_at": term_at,
            "binds": binds, "abort_at": abort,
            "keepalive": rng.choice([0, 2]), "buggify": {"pyticks": rng.randrange(3) == 0, "short_recv": rng.randrange(4) == 0, "spurious_select": rng.randrange(4) == 0}}


def run_worker(case, choices):
    res = Result()
    sim = Sim(choices, max_steps=200000, max_time=300.0)
    sim.buggify = dict(case["buggify"])
    if case["buggify"].get("pyticks"):
        preempt.enable()
        sim.py_ticks = True          # eval-breaker points inside gunicorn's Python code are delivery / pre-emption points too
    T = case["timeout"]
    kind = case["kind"]
    sat = case.get("saturate")
    w = W.WorkerWorld(sim, kind, {"timeout": T, "graceful_timeout": 2 if not case.get("term_at") else max(2, T + 1), "keepalive": sat["keepalive"] if sat else case["keepalive"],
                                  "threads": case["threads"] if not sat else max(case["threads"], 1),
                                  "worker_connections": (sat["n"] + case["threads"]) if sat else 10},
                      extra_addrs=[("127.0.0.1", 8001)] if case.get("binds", 1) == 2 else ())
    p = w.start_worker()
    if sat:
        # max_keepalived = worker_connections - threads = n idle keep-alive connections are allowed; they fill ... the rest of
        # the slots is taken by further idle connections that never send anything
        for i in range(sat["n"]):
            w.add_client("k%d" % i, [["wait", 0.2 + 0.05 * i], ["connect"], ["send", "GET /a HTTP/1.1\r\nHost: h\r\n\r\n"], ["recv", 30.0],
                                     ["await-eof", 60.0]])
        for i in range(case["threads"]):
            w.add_client("s%d" % i, [["wait", 0.5 + 0.05 * i], ["connect"], ["await-eof", 60.0]])
        sim.probe("worker_saturated_by_idle_connections")
    beats = []

    def observer(s, actor, kind_, detail):
        if kind_ == "utime" and actor == "worker":
            beats.append(s.now)
    sim.observers.append(observer)
    cl = []
    for i, c in enumerate(case["clients"]):
        path = "/sleep/%s" % c["dur"] if c["dur"] else "/a"
        cl.append(w.add_client("c%d" % i, [["wait", c["t"]], ["connect"], ["send", "GET %s HTTP/1.1\r\nHost: h\r\nConnection: close\r\n\r\n" % path],
                                           ["recv", 60.0]], addr=w.addrs[c.get("addr", 0)] if len(w.addrs) > 1 else None))
    t_end = max([c["t"] + c["dur"] for c in case["clients"]] + [0.0]) + 3.0 * T + 2.0 + (sat["keepalive"] if sat else 0)
    ctx = lambda: "family=worker kind=%s timeout=%s (worker wait bound %s) threads=%d clients=%r t=%.2f" % (
        kind, T, T / 2.0, case["threads"], case["clients"], sim.now)
    abort_at = case.get("abort_at")
    if abort_at is not None:
        t_end = abort_at + 3.0

        def abort():
            if p.state == "running":
                sim.fault("worker_sigabrt_while_request_hangs")
                sim.kill(p.pid, int(signal.SIGABRT))
        sim.after(abort_at, abort)
    term_at = case.get("term_at")
    if term_at is not None:
        def fire():
            if p.state == "running" and int(signal.SIGTERM) in p.handlers:
                sim.fault("worker_retired_while_busy")
                sim.kill(p.pid, int(signal.SIGTERM))
        sim.after(term_at, fire)
    try:
        sim.run(until=lambda: sim.now >= t_end or p.state != "running")
        if sim.crash:
            raise W.HarnessError(sim.crash)
        if abort_at is not None:
            handled = [t_ for t_, sg in p.sig_received if sg == int(signal.SIGABRT)]
            late = [b for b in beats if handled and b > handled[0] + 0.3]
            if handled and p.state == "running" and late:
                res.violate("C11:worker:%s:carried-on-after-abort" % kind,
                            "the %s worker was sent SIGABRT at t=%.2f while a request had been hanging for longer than timeout=%s; %.1f s later it "
                            "is still running and heart-beating (last at t=%.2f): the master sees a healthy worker again and never replaces it; %s"
                            % (kind, handled[0], T, sim.now - handled[0], late[-1], ctx()))
            res.nontrivial = True
            res.sim_s = sim.now
            res.faults.update(sim.faults)
            res.probes.update(sim.probes)
            res.states.add(h64("worker-abort", kind, T, p.state))
            res.from_log(sim.log)
            return res
        # (asked to leave = the TERM was delivered; comparing clock values is wrong when the request ends in the very instant of the TERM)
        if p.state != "running" and not any(sg == int(signal.SIGTERM) for _, sg in p.sig_received):
            res.violate("C11:worker:%s:exited" % kind, "the worker exited (%r) by itself; boot_error=%r; %s" % (p.status, w.boot_error, ctx()))
        gaps = [b - a for a, b in zip(beats, beats[1:])]
        end_t = sim.now if p.state == "running" else getattr(p, "exit_time", sim.now)
        if term_at is not None:
            # a retired worker owes heartbeats while it drains, i.e. until its graceful timeout has passed; a process that lingers
            # after that (CPython joins the pool threads at exit) is overdue, and being killed then is not "killed for inactivity"
            handled = [t_ for t_, sg in p.sig_received if sg == int(signal.SIGTERM)]
            if handled:
                gt_ = max(2, T + 1)
                end_t = min(end_t, handled[0] + gt_)
                beats = [b for b in beats if b <= end_t + 1e-9]
                gaps = [b - a for a, b in zip(beats, beats[1:])]
        if beats:
            gaps.append(max(0.0, end_t - beats[-1]))
        worst = max(gaps) if gaps else sim.now
        sim.probe("worker_side_runs")
        if worst >= T - 1e-6:
            i = gaps.index(worst)
            res.violate("C11:worker:%s:heartbeat-gap>=timeout:timeout=%s" % (kind, T),
                        "the %s worker went %.3f s without notify() (from t=%.3f) although every request is shorter than timeout=%s: "
                        "the master would kill this healthy worker; %s" % (kind, worst, beats[i] if i < len(beats) else -1, T, ctx()))
        res.nontrivial = True
        res.sim_s = sim.now
        res.faults.update(sim.faults)
        res.probes.update(sim.probes)
        res.states.add(h64("worker", kind, T, len(case["clients"]), round(worst / T, 1)))
        res.from_log(sim.log)
        res.sample = {"family": "worker", "kind": kind, "timeout": T, "clients": case["clients"][:4], "beats": len(beats), "max_gap": round(worst, 3)}
    finally:
        sim.shutdown()
    return res


def make_case(index, rng, tier):
    if index % 3 == 2:
        return make_worker_case(index, rng, tier)
    timeout = rng.choice([0, 1, 2, 3, 3, 5])
    n = rng.randrange(1, 4)
    scripts = {}
    kinds = []
    for age in range(1, n + 1):
        k = rng.randrange(9)
        t_eff = timeout or 2
        if k == 0:
            scripts[str(age)] = {"beat_gap": round(t_eff - 0.001, 3)}          # boundary: gaps just under timeout
            kinds.append("boundary")
        elif k == 1:
            scripts[str(age)] = {"beat_gap": round(t_eff * rng.choice([0.5, 0.9, 0.99]), 3)}
            kinds.append("slow-ok")
        elif k == 2:
            scripts[str(age)] = {"beat_until": round(rng.uniform(0.2, 5.0), 2)}
            kinds.append("hang")
        elif k == 3:
            scripts[str(age)] = {"beat_until": round(rng.uniform(0.2, 5.0), 2), "abrt": "ignore"}
            kinds.append("hang+ignore-abrt")
        elif k == 4:
            scripts[str(age)] = {"boot_delay": 3600.0}
            kinds.append("hang-at-boot")
        elif k == 5:
            kinds.append("sigstop")
        else:
            kinds.append("healthy")
    events = []
    for i, kd in enumerate(kinds):
        if kd == "sigstop":
            events.append({"t": round(rng.uniform(0.5, 5.0), 2), "do": "stop", "which": i})
    if rng.randrange(4) == 0:
        events.append({"t": round(rng.uniform(0.5, 8.0), 2), "do": "clockstep", "by": rng.choice([3600.0, -3600.0, 86400.0])})
    for _ in range(rng.choice([0, 0, 1, 2])):
        # a worker dies while the master may be in the middle of its timeout scan
        events.append({"t": round(rng.uniform(0.5, 9.0), 2), "do": "killw", "which": rng.randrange(4),
                       "tick": rng.randrange(1, 60) if rng.randrange(2) else None})
    if rng.randrange(4) == 0:
        # the master is woken more often than once per loop period (USR1 / WINCH are harmless to it)
        events.append({"t": 0.5, "do": "storm", "every": rng.choice([0.2, 0.3, 0.45, 0.7]), "sig": rng.choice(["USR1", "WINCH"])})
    return {"timeout": timeout, "workers": n, "scripts": scripts, "kinds": kinds, "events": events,
            "buggify": {"pyticks": rng.randrange(3) == 0, "fork_child_first": rng.randrange(2) == 0, "spurious_select": rng.randrange(3) == 0,
                        "random_spawn_delay": rng.randrange(2) == 0}}


def run(case, choices):
    if case.get("family") == "worker":
        return run_worker(case, choices)
    res = Result()
    sim = Sim(choices, max_steps=80000, max_time=300.0)
    sim.buggify = dict(case["buggify"])
    if case["buggify"].get("pyticks"):
        preempt.enable()
        sim.py_ticks = True          # eval-breaker points inside gunicorn's Python code are delivery / pre-emption points too
    timeout = case["timeout"]
    cfg = {"workers": case["workers"], "timeout": timeout, "graceful_timeout": 2, "bind": ["127.0.0.1:8000"], "proc_name": "m0"}
    scripts = {int(a): dict(s) for a, s in case["scripts"].items()}
    w = master.World(sim, cfg, scripts=scripts)
    w.faults_end = 0.01        # only the first generation carries scripted patterns; replacements are healthy
    m = w.start_master()
    last_beat = {}
    created = {}
    abrt_at = {}
    kill_at = {}
    dead_at = {}
    age_of = {}
    maxgap = {}

    def observer(s, actor, kind, detail):
        if kind == "fork" and actor == m.name:
            created[detail] = s.now
            last_beat[detail] = s.now
        elif kind == "utime":
            t = current_task()
            if t is not None and t.proc is not m:
                pid = t.proc.pid
                if pid in last_beat:
                    maxgap[pid] = max(maxgap.get(pid, 0.0), s.now - last_beat[pid])
                last_beat[pid] = s.now
        elif kind == "exit" and actor.startswith("worker"):
            for p in s.procs.values():
                if p.name == actor and p.pid not in dead_at and p.state != "running":
                    dead_at[p.pid] = s.now
        elif kind == "kill" and actor == m.name and detail[1] in ("SIGABRT", "SIGIOT", "SIGKILL"):
            pid = detail[0]
            if getattr(w.masters.get(m.pid), "_world_stopping", False):
                return
            silence = s.now - last_beat.get(pid, s.now)
            if detail[1] == "SIGKILL":
                kill_at.setdefault(pid, s.now)
            else:
                abrt_at.setdefault(pid, s.now)
            s.probe("timeout_kill_checked")
            if abs(silence - timeout) < 1e-9:
                s.probe("heartbeat_gap_at_boundary")
            if timeout == 0:
                res.violate("C11:kill-with-timeout-0", "timeout=0 disables the scan but the master sent %s to pid %d" % (detail[1], pid))
            elif silence < timeout - 1e-6 and pid in created:
                # (exact equality is physically meaningless in continuous time and is not judged)
                res.violate("C11:false-kill:%s" % ("boundary" if timeout - silence < 0.01 else "healthy"),
                            "the master sent %s to worker pid %d whose last heartbeat was %.3f s ago (timeout %s): a worker "
                            "whose silences never exceed the timeout must never be killed for inactivity" % (detail[1], pid, silence, timeout))
    sim.observers.append(observer)

    last_env_kill = [None]

    def first_gen():
        return sorted(p.pid for p in sim.procs.values() if p.name.startswith("worker") and p.pid in created)

    def do_event(e):
        if e["do"] == "stop":
            pids = sorted(created)
            if pids:
                pid = pids[e["which"] % len(pids)]
                sim.fault("worker_sigstop")
                master.send_signal(sim, pid, signal.SIGSTOP)
        elif e["do"] == "killw":
            def kill_one():
                lw = sorted(master.live_children(sim, m.pid), key=lambda p_: p_.pid)
                if lw and m.state == "running":
                    sim.fault("worker_killed_by_environment")
                    victim = lw[e["which"] % len(lw)]
                    created.pop(victim.pid, None)          # its silence from now on is death, not a hang
                    last_env_kill[0] = sim.now
                    master.send_signal(sim, victim.pid, signal.SIGKILL)
            if e.get("tick"):
                t_ = m.tasks[0]
                t_.tick_hooks[t_.ticks + e["tick"]] = kill_one
            else:
                kill_one()
        elif e["do"] == "storm":
            if m.state == "running" and sim.now < horizon - 1.0:
                if int(signal.SIGCHLD) in m.handlers:
                    sim.fault("master_signal_storm")
                    master.send_signal(sim, m.pid, getattr(signal, "SIG" + e["sig"]))
                sim.after(e["every"], lambda e=e: do_event(e))
        elif e["do"] == "clockstep":
            m.wall_offset = getattr(m, "wall_offset", 0.0) + e["by"]
            sim.fault("master_wall_clock_step")
    t_eff = timeout or 2
    horizon = 6.0 + 2 * t_eff + 8.0
    for e in case["events"]:
        sim.after(e["t"], (lambda e=e: do_event(e)))
    try:
        why = sim.run(until=lambda: sim.now >= horizon or m.state != "running")
        if last_env_kill[0] is not None and m.state == "running" and sim.now < last_env_kill[0] + t_eff + 5.0:
            # a kill injected at a system-call index of the master can land arbitrarily late; a child killed between fork() and its
            # registration is a phantom entry the master only drops after `timeout` (kill -> ESRCH): give it that long before judging
            sim.probe("late_kill_run_extended")
            until_t = last_env_kill[0] + t_eff + 5.0
            why = sim.run(until=lambda: sim.now >= until_t or m.state != "running")
        ctx = lambda: "timeout=%s kinds=%r scripts=%r events=%r t=%.2f" % (timeout, case["kinds"], case["scripts"], case["events"], sim.now)
        if sim.crash:
            raise master.HarnessError(sim.crash)
        if why in ("step-cap", "time-cap"):
            res.violate("C11:no-progress:" + why, "simulation cap hit; %s" % ctx())
        if m.state != "running":
            res.violate("C11:master-exited", "the master exited with %r; escaped=%r; %s" % (m.status, sim.escaped[:1], ctx()))
        elif timeout > 0:
            # no missed kill: every worker process that is (or was) silent for longer than the timeout
            for pid in sorted(created):
                p = sim.procs.get(pid)
                end = dead_at.get(pid, sim.now)
                lb = last_beat.get(pid, created[pid])
                silent = end - lb
                pat = "other"
                ages = [a for a in range(1, case["workers"] + 1)]
                if p is not None and p.name.startswith("worker"):
                    try:
                        a = int(p.name[6:])
                        pat = case["kinds"][a - 1] if a - 1 < len(case["kinds"]) else "replacement"
                    except ValueError:
                        pass
                if silent > timeout + 3.0 + 1e-9:
                    if pid not in abrt_at or abrt_at[pid] > lb + timeout + 3.0 + 1e-9:
                        res.violate("C11:missed-kill:abrt:%s" % pat,
                                    "worker pid %d (%s) was silent from t=%.2f (%.2f s > timeout %s + 3 s) and got SIGABRT at %r; %s"
                                    % (pid, pat, lb, silent, timeout, abrt_at.get(pid), ctx()))
                    elif p is not None and p.state == "running" or (pid in dead_at and dead_at[pid] > abrt_at[pid] + 3.0 + 1e-9):
                        if pid not in kill_at or kill_at[pid] > abrt_at[pid] + 3.0 + 1e-9:
                            res.violate("C11:missed-kill:kill:%s" % pat,
                                        "worker pid %d (%s) got SIGABRT at %.2f, stayed alive, and SIGKILL came at %r; %s"
                                        % (pid, pat, abrt_at[pid], kill_at.get(pid), ctx()))
            live = master.live_children(sim, m.pid)
            a = w.masters.get(m.pid)
            stuck = [p for p in live if sim.now - last_beat.get(p.pid, sim.now) > timeout + 6.0]
            if stuck:
                res.violate("C11:hung-worker-survives", "worker(s) %r still alive and silent for > timeout + 6 s at the end; %s"
                            % ([p.pid for p in stuck], ctx()))
            if len(live) != case["workers"]:
                res.violate("C11:not-replaced", "%d live workers at the end, configured %d; %s" % (len(live), case["workers"], ctx()))
            # the rest of the server keeps being scheduled: replacements / healthy workers beat at least every timeout
            for p in live:
                if p.pid in maxgap and p.name.startswith("worker"):
                    try:
                        a_ = int(p.name[6:])
                    except ValueError:
                        continue
                    if a_ > case["workers"] and maxgap[p.pid] > max(1.0, timeout) + 1e-6:
                        res.violate("C11:healthy-starved", "replacement worker pid %d had a heartbeat gap of %.2f s; %s" % (p.pid, maxgap[p.pid], ctx()))
        else:
            if abrt_at or kill_at:
                res.violate("C11:kill-with-timeout-0", "kills happened with timeout=0; %s" % ctx())
        res.nontrivial = any(k != "healthy" for k in case["kinds"])
        res.sim_s = sim.now
        res.faults.update(sim.faults)
        res.probes.update(sim.probes)
        for k in case["kinds"]:
            res.probes["pattern:" + k] += 1
        res.states.add(h64(timeout, sorted(case["kinds"]), len(abrt_at), len(kill_at)))
        res.from_log(sim.log)
        res.sample = {"timeout": timeout, "patterns": case["kinds"], "events": case["events"], "abrt": len(abrt_at),
                      "kill": len(kill_at), "sim_seconds": round(sim.now, 2)}
    finally:
        sim.shutdown()
    return res


def shrink(case):
    if case.get("family") == "worker":
        for i in range(len(case["clients"])):
            yield dict(case, clients=case["clients"][:i] + case["clients"][i + 1:])
        return
    for i in range(len(case["events"])):
        yield dict(case, events=case["events"][:i] + case["events"][i + 1:])
    for k in sorted(case["scripts"]):
        d = dict(case["scripts"])
        del d[k]
        kinds = list(case["kinds"])
        kinds[int(k) - 1] = "healthy"
        yield dict(case, scripts=d, kinds=kinds)
    for k, v in case["buggify"].items():
        if v:
            yield dict(case, buggify=dict(case["buggify"], **{k: False}))
