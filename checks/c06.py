"""C06 — parsing does not depend on how bytes are split across reads (W1; schedules)."""
from simkit.core import Result, EventLog, h64, b2j, j2b, bsafe
from worlds import httpgen
from worlds.stream import make_cfg, observe, CutSock

ID = "C06"
LEVEL = "exploration"
DESIGN_REF = "DESIGN.md §4 C06"
QUICK_RUNS = 48000
THOROUGH_MIN_RUNS = 20000
BATCH = 250
CASE_WALL_S = 30.0
RULE = ("case = a generated request stream (1-3 pipelined messages, grammar + obfuscation operators, or a corpus "
        "file from tests/requests) x parser limits; the real RequestParser reads it through SocketUnreader from a "
        "simulated socket under: one maximal-read baseline, every single cut at a delimiter-adjacent offset "
        "(quick) or at every offset (thorough), byte-at-a-time, and seeded k-cut schedules biased into "
        "delimiters; observation sequences (fields, body bytes, trailers, terminal outcome class) must be "
        "identical.  distinct = distinct (stream, limits) pairs by hash; non-trivial = the stream yields at least "
        "one request or a rejection (not an empty/immediately-EOF stream)")
ASSUMPTIONS = [
    "recv(n) returns between 1 and n bytes before the end of the stream and b'' at orderly EOF",
    "exception messages and classes are not part of the observation: only whether and at which request/phase "
    "the stream is rejected, ends cleanly, or ends incomplete",
    "documented-unsafe parser switches are left at their defaults",
]
COMPONENTS = {"real": ["gunicorn.http.parser", "gunicorn.http.message", "gunicorn.http.body",
                       "gunicorn.http.unreader.SocketUnreader", "gunicorn.config.Config"],
              "stub": ["peer + network segmentation (worlds.stream.CutSock)"]}

STATUS = {"LimitRequestHeaders": 431, "UnsupportedTransferCoding": 501, "ForbiddenProxyRequest": 403,
          "ConfigurationProblem": 500}
S400 = {"InvalidRequestLine", "InvalidRequestMethod", "InvalidHTTPVersion", "InvalidHeader",
        "InvalidHeaderName", "LimitRequestLine", "InvalidProxyLine", "InvalidSchemeHeaders",
        "ObsoleteFolding"}


def term_class(t):
    if t[0] == "reject":
        # the class is reported, not compared: the property speaks of the point of rejection, not of the error class; what the parser does
        # when asked for another request after a broken body (nothing / a request) is part of "the sequence of requests obtained"
        return ("reject", t[2], ("more:%s" % (t[3].get("uri"),)) if len(t) > 3 and t[3] else "stop")
    return t


LIMITS = [{}, {}, {"limit_request_line": 30}, {"limit_request_line": 64, "limit_request_fields": 3},
          {"limit_request_field_size": 24}, {"limit_request_fields": 2, "limit_request_field_size": 40},
          {"limit_request_field_size": 0, "limit_request_fields": 1},
          {"limit_request_line": 0}, {"proxy_protocol": True, "proxy_allow_ips": "*"}]

_CORPUS = None


def corpus():
    global _CORPUS
    if _CORPUS is None:
        import glob
        import os
        import gunicorn
        base = os.path.join(os.path.dirname(os.path.dirname(gunicorn.__file__)), "tests", "requests")
        out = []
        for p in sorted(glob.glob(os.path.join(base, "*", "*.http"))):
            with open(p, "rb") as f:
                d = f.read()
            if len(d) <= 4096:
                out.append(d)
        out.extend(httpgen.CANONICAL)
        _CORPUS = out
    return _CORPUS


def make_case(index, rng, tier):
    cp = corpus()
    grid = httpgen.grid_streams()
    if len(cp) <= index < len(cp) + len(grid):
        # the feature-pair grid (see httpgen.grid_streams): every stream under the single-cut and multi-cut sweeps
        return {"msgs": [b2j(m) for m in grid[index - len(cp)]], "cfg": {}, "every_offset": tier == "thorough"}
    if index < len(cp):
        msgs = [cp[index]]
        if index % 3 == 0:
            msgs.append(rng.choice(httpgen.CANONICAL))
        cfg = rng.choice(LIMITS) if index % 2 else {}
    else:
        msgs = httpgen.gen_stream(rng, 3, hostile=True)
        if rng.randrange(6) == 0:
            msgs.insert(0, b"PROXY TCP4 1.2.3.4 5.6.7.8 11 22\r\n")
        cfg = rng.choice(LIMITS)
        k = rng.randrange(7)
        if k == 6:
            # limit_request_field_size = 0 is documented as 'unlimited': a very long field under a small field count
            cfg = {"limit_request_field_size": 0, "limit_request_fields": rng.choice([1, 2, 3, 5])}
            size = rng.choice([9000, 17000, 20000, 26000, 40000])
            msgs[rng.randrange(len(msgs))] = b"GET /big HTTP/1.1\r\nHost: a\r\nX-Big: " + b"v" * size + b"\r\n\r\n"
        if k == 5 and rng.randrange(2):
            # a chunk-size line (with a long extension) or a trailer section around the cap that the small head limits imply for them
            cfg = dict(rng.choice([{"limit_request_fields": 2, "limit_request_field_size": 40}, {"limit_request_fields": 3, "limit_request_field_size": 30},
                                   {"limit_request_fields": 1, "limit_request_field_size": 0}]))
            S_ = cfg["limit_request_field_size"] or 8190
            cap = cfg["limit_request_fields"] * (S_ + 2) + 4
            n_ = cap + rng.choice([-6, -3, -2, -1, 0, 1, 2, 3, 50])
            if rng.randrange(2):
                body = b"5;" + b"e" * max(0, n_ - 2) + b"\r\nhello\r\n0\r\n\r\n"
            else:
                body = b"5\r\nhello\r\n0\r\nX-T: " + b"t" * max(0, n_ - 5) + b"\r\n\r\n"
            msgs[rng.randrange(len(msgs))] = b"POST /c HTTP/1.1\r\nHost: a\r\nTransfer-Encoding: chunked\r\n\r\n" + body
        if k == 4 and rng.randrange(2):
            # more line ends in the header block than limit_request_fields allows fields - because of an earlier defect that is the first
            # thing wrong with the block, or because continuation lines (obsolete folding, where permitted) are not fields: the verdict
            # is the one the complete block gets, wherever the reads end
            n_ = rng.choice([2, 3, 5])
            cfg = {"limit_request_fields": n_}
            if rng.randrange(2):
                cfg["permit_obsolete_folding"] = True
                lines = []
                for f_ in range(rng.randrange(1, n_ + 1)):
                    lines.append(b"X-F%d: v" % f_)
                    lines += [b" cont%d" % c_ for c_ in range(rng.randrange(0, 4))]
            else:
                lines = [b"X-F%d: v" % f_ for f_ in range(n_ + rng.choice([0, 1, 2, 6]))]
                lines.insert(rng.randrange(0, min(3, len(lines)) + 1), rng.choice([b"Bad Name: x", b"NoColon", b"X\0Y: 1", b" folded", b"X-V: a\0b", b": empty"]))
            msgs[rng.randrange(len(msgs))] = b"GET /many HTTP/1.1\r\n" + b"".join(l + b"\r\n" for l in lines) + b"\r\n"
        if k == 0:
            # stray line terminators / blanks in front of a request line (start of the connection or after a body)
            i = rng.randrange(len(msgs))
            msgs[i] = rng.choice([b"\r\n", b"\n", b"\r", b" ", b"\r\n\r\n", b"\t\r\n"]) + msgs[i]
        elif k in (1, 2):
            # a request line / a field / the field count placed exactly around its configured limit: what the decision is there is
            # C12's business, that it does not depend on where the stream is cut is this property's
            cfg = dict(rng.choice([c for c in LIMITS if any(x.startswith("limit") for x in c)]))
            L = cfg.get("limit_request_line", 4094)
            S = cfg.get("limit_request_field_size", 8190)
            F = cfg.get("limit_request_fields", 100)
            d = rng.choice([-2, -1, 0, 0, 1, 2])
            line = b"GET /"
            tail = b" HTTP/1.1"
            if L and rng.randrange(2):
                line += b"a" * max(0, L + d - len(line) - len(tail))
                d = rng.choice([-2, -1, 0, 1, 2, -5])
            fields = [b"Host: a"]
            if S and rng.randrange(2):
                fields.append(b"X-B: " + b"v" * max(0, S + d - 5))
                d = rng.choice([-2, -1, 0, 1, 2, -5])
            if F <= 8 and rng.randrange(2):
                while len(fields) < F + d:
                    fields.append(b"X-%d: v" % len(fields))
            m = line + tail + b"\r\n" + b"".join(f + b"\r\n" for f in fields) + b"\r\n"
            msgs[rng.randrange(len(msgs))] = m
    return {"msgs": [b2j(m) for m in msgs], "cfg": cfg, "every_offset": tier == "thorough"}


def _obs_key(obs, term):
    return ([(o["method"], o["uri"], o["version"], o["headers"], o["body"], o["trailers"]) for o in obs],
            term_class(term))


def _describe(a, b):
    (oa, ta), (ob, tb) = a, b
    if len(oa) != len(ob):
        return "request-count", "requests %d vs %d, terminal %r vs %r" % (len(oa), len(ob), ta, tb)
    for i, (x, y) in enumerate(zip(oa, ob)):
        for j, nm in enumerate(("method", "uri", "version", "headers", "body", "trailers")):
            if x[j] != y[j]:
                return nm, "request %d %s differs: %s vs %s" % (i, nm, bsafe(x[j], 80) if nm == "body" else repr(x[j])[:160],
                                                               bsafe(y[j], 80) if nm == "body" else repr(y[j])[:160])
    return "terminal", "terminal %r vs %r" % (ta, tb)


def run(case, choices):
    res = Result()
    log = EventLog()
    data = b"".join(j2b(m) for m in case["msgs"])
    cfg = make_cfg(**case["cfg"])
    n = len(data)

    def go(cuts):
        obs, term, sock = observe(cfg, data, cuts)
        return _obs_key(obs, term)

    base = go(())
    log.add("parser", "baseline", (len(base[0]), base[1]))
    res.states.add(h64(len(base[0]), base[1]))
    res.nontrivial = bool(base[0]) or base[1][0] == "reject"

    def check(cuts, kind):
        got = go(cuts)
        res.faults["segmentation:" + kind] += 1
        if got != base:
            what, msg = _describe(base, got)
            bt, gt = base[1], got[1]
            key = "C06:%s:%s->%s" % (what, "/".join(map(str, bt)), "/".join(map(str, gt)))
            res.violate(key, "cuts=%r (%s): %s; stream=%s cfg=%r" % (list(cuts)[:12], kind, msg,
                                                                     bsafe(data, 300), case["cfg"]))
            log.add("oracle", "mismatch", key)
            return False
        return True

    # (1) single cuts
    if case.get("every_offset") or n <= 64:
        single = range(1, n)
    else:
        pts = set()
        for i, c in enumerate(data):
            if c in (13, 10, 58, 59, 32):
                pts.update((i - 1, i, i + 1, i + 2))
        pts.update((1, 2, 3, n - 1, n - 2, n - 3))
        single = sorted(p for p in pts if 0 < p < n)
    for p in single:
        if data[p - 1:p + 1] == b"\r\n":
            res.probes["cut_inside_crlf"] += 1
        if b"\r\n\r\n" in data[max(0, p - 3):p + 3] and data[p - 1:p + 1] in (b"\r\n", b"\n\r"):
            res.probes["cut_inside_crlfcrlf"] += 1
        if not check((p,), "single"):
            break
    # (2) byte at a time
    if n <= 1500:
        check(tuple(range(1, n)), "bytewise")
    # (2b) regular read sizes (what a slow link or a small receive buffer produces), for streams too long for the byte-wise sweep
    if n > 1500:
        for b in (100, 1000, 4096):
            if not check(tuple(range(b, n, b)), "blocks%d" % b):
                break
    # (3) seeded k-cut schedules, biased to delimiters
    delims = [i for i, c in enumerate(data) if c in (13, 10)] or [0]
    for _ in range(6):
        k = 2 + choices.choose(5)
        cuts = set()
        for _ in range(k):
            if choices.choose(3):
                cuts.add(delims[choices.choose(len(delims))] + choices.choose(4) - 1)
            else:
                cuts.add(1 + choices.choose(max(1, n - 1)))
        cuts = tuple(sorted(c for c in cuts if 0 < c < n))
        if cuts:
            check(cuts, "kcut")
    log.add("parser", "done", len(res.violations))
    res.from_log(log)
    res.shape = h64(data, sorted(case["cfg"].items()))
    res.sample = {"stream": bsafe(data, 160), "cfg": case["cfg"], "requests": len(base[0]),
                  "terminal": list(map(str, base[1])), "single_cuts": len(single)}
    return res


def shrink(case):
    msgs = [j2b(m) for m in case["msgs"]]
    for cand in httpgen.shrink_stream(msgs):
        yield dict(case, msgs=[b2j(m) for m in cand])
    if case["cfg"]:
        for k in list(case["cfg"]):
            c = dict(case["cfg"])
            del c[k]
            yield dict(case, cfg=c)
