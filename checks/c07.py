"""C07 — wsgi.input yields exactly the request body, and never the next request (W1; programs x schedules)."""
import io

from simkit.core import Result, EventLog, h64, b2j, j2b, bsafe
from oracles import http_ref
from worlds import httpgen
from worlds.stream import make_cfg, CutSock, consumed_offset
from gunicorn.http import RequestParser
from gunicorn.http.errors import NoMoreData

ID = "C07"
LEVEL = "exploration"
DESIGN_REF = "DESIGN.md §4 C07"
QUICK_RUNS = 150000
THOROUGH_MIN_RUNS = 100000
BATCH = 2000
CASE_WALL_S = 20.0
RULE = ("case = a well-formed request stream (Content-Length or chunked body with a generated chunk layout, "
        "followed by 0-2 pipelined requests) x a consumer *program* over read(n)/readline(n)/readlines(h)/iteration "
        "with sizes from {None,-1,0,1,2,1023,1024,1025,8191,8192,large} that stops early or reads past EOF x a "
        "seeded segmentation of the connection x optional EOF injected at a seeded offset; every call result is "
        "compared with io.BytesIO over the body assigned by the independent reference framer, and the next "
        "request must start at the first byte after the body.  distinct = distinct (stream, program, "
        "segmentation) triples by hash; non-trivial = body non-empty and program has >= 1 effective call")
ASSUMPTIONS = [
    "readlines(hint) may ignore the hint (PEP 3333): either the io.BytesIO result or all remaining lines is accepted",
    "under an injected EOF the concatenated results must be a prefix of the reference body; only NoMoreData may be raised",
    "the reference body comes from oracles.http_ref (independent strict framer)",
]
COMPONENTS = {"real": ["gunicorn.http.body.Body/LengthReader/ChunkedReader", "gunicorn.http.parser.Parser.__next__",
                       "gunicorn.http.unreader.SocketUnreader", "gunicorn.http.message.Request"],
              "stub": ["peer + network (CutSock)", "application = generated consumer program"]}

SIZES = [None, -1, 0, 1, 2, 3, 7, 1023, 1024, 1025, 2048, 8191, 8192, 8193, 100000]


def gen_program(rng):
    ops = []
    for _ in range(rng.randrange(1, 9)):
        k = rng.randrange(10)
        if k < 4:
            ops.append(["read", rng.choice(SIZES)])
        elif k < 7:
            ops.append(["readline", rng.choice(SIZES)])
        elif k < 8:
            ops.append(["readlines", rng.choice([None, -1, 0, 1, 5, 50, 5000])])
        elif k < 9:
            ops.append(["next"])
        else:
            # a fresh iterator, abandoned after a few lines ("for line in body: ... break"): what it did not hand out is still there
            ops.append(["iter", rng.choice([0, 1, 1, 2, 3])])
    tail = rng.choice(["stop", "stop", "drain", "drain+eof"])
    return {"ops": ops, "tail": tail}


def gen_valid_message(rng, last):
    method = rng.choice([b"POST", b"PUT", b"PATCH"])
    kind = rng.choice(["cl", "chunked", "chunked"])
    n = rng.randrange(12)
    if n == 0:
        body = b""
    elif n < 3:
        body = httpgen.rbytes(rng, rng.choice([1, 2, 1023, 1024, 1025, 2047, 2048, 2049, 8191, 8192, 8193, 9000]), b"ab\n")
    elif n < 5:
        body = b"".join(httpgen.rbytes(rng, rng.randrange(0, 40), b"xyz \r") + b"\n" for _ in range(rng.randrange(1, 80)))
    elif n < 6:
        body = httpgen.SMUGGLE * rng.randrange(1, 4)
    elif n == 11 and rng.randrange(3) == 0:
        # larger than any internal read/discard block: 64 KiB boundaries
        body = (b"L" * 1023 + b"\n") * 64 + b"x" * rng.choice([0, 1, 4464, 65537])
    elif n < 7:
        body = b"\n" * rng.randrange(1, 2000)
    else:
        body = httpgen.gen_body(rng, 400)
    lines = [method + b" /u" + (b"%d" % rng.randrange(100)) + b" HTTP/1.1", b"Host: h"]
    if not last and rng.randrange(8) == 0:
        pass
    if kind == "cl":
        lines.append(b"Content-Length: %d" % len(body))
        wire = body
    else:
        lines.append(b"Transfer-Encoding: chunked")
        wire = httpgen.chunk_encode(rng, body, hostile=False)
    return b"\r\n".join(lines) + b"\r\n\r\n" + wire


def make_case(index, rng, tier):
    n = rng.randrange(1, 4)
    msgs = [gen_valid_message(rng, i == n - 1) for i in range(n)]
    if rng.randrange(4) == 0:
        msgs.append(rng.choice(httpgen.CANONICAL))
    total = sum(len(m) for m in msgs)
    eof = None
    if rng.randrange(5) == 0:
        eof = rng.randrange(1, total)
    seg = rng.choice(["max", "k", "k", "bytes1", "small"])
    if total > 20000:
        seg = rng.choice(["max", "k"])
    # tuning knobs: small head limits (every generated head fits them) also shrink the caps that protect the parser's other buffers
    cfg = rng.choice([{}, {}, {"limit_request_fields": 5, "limit_request_field_size": 50}, {"limit_request_fields": 10, "limit_request_field_size": 100},
                      {"limit_request_fields": 6, "limit_request_field_size": 0}])
    return {"msgs": [b2j(m) for m in msgs], "programs": [gen_program(rng) for _ in msgs],
            "eof_at": eof, "seg": seg, "cfg": cfg}


def _cuts(case, n, choices):
    seg = case["seg"]
    if seg == "max":
        return ()
    if seg == "bytes1":
        return tuple(range(1, n)) if n < 3000 else tuple(range(1, n, 7))
    if seg == "small":
        out, p = [], 0
        while p < n:
            p += 1 + choices.choose(40)
            out.append(p)
        return tuple(c for c in out if c < n)
    k = 1 + choices.choose(8)
    return tuple(sorted({1 + choices.choose(max(1, n - 1)) for _ in range(k)}))


def _all_lines(data):
    return io.BytesIO(data).readlines()


def run(case, choices):
    res = Result()
    log = EventLog()
    full = b"".join(j2b(m) for m in case["msgs"])
    data = full if case["eof_at"] is None else full[:case["eof_at"]]
    truncated = case["eof_at"] is not None
    if truncated:
        res.faults["eof_injected"] += 1
    ref_msgs, ref_term = http_ref.frame(full)
    if ref_term != ("END",) or len(ref_msgs) != len(case["msgs"]):
        # generator produced something the reference does not accept: not a C07 case
        res.nontrivial = False
        res.from_log(log)
        res.shape = h64("skip", full)
        return res
    cuts = _cuts(case, len(data), choices)
    res.faults["segmentation:" + case["seg"]] += 1
    sock = CutSock(data, cuts)
    parser = RequestParser(make_cfg(**case.get("cfg", {})), sock, ("10.0.0.9", 1))
    effective = 0
    i = -1
    try:
        for i, rm in enumerate(ref_msgs):
            try:
                req = next(parser)
            except StopIteration:
                if truncated and rm["start"] >= len(data):
                    break
                if i > 0 and prev_close:
                    break
                if truncated:
                    break
                res.violate("C07:next-request:missing", "request %d not yielded although the previous one did not ask to close; stream=%s"
                            % (i, bsafe(full, 200)))
                break
            except NoMoreData:
                if truncated:
                    break
                res.violate("C07:next-request:NoMoreData", "request %d: NoMoreData on a complete stream" % i)
                break
            except Exception as e:
                if truncated and isinstance(e, Exception):
                    # a truncated next head may legitimately be rejected or incomplete
                    break
                res.violate("C07:next-request:%s" % type(e).__name__,
                            "request %d rejected (%r) - it must start at offset %d; stream=%s"
                            % (i, e, rm["start"], bsafe(full[max(0, rm['start'] - 20):rm['start'] + 60], 120)))
                break
            start = consumed_offset(parser, sock)      # == end of this request's head
            if (req.method, req.uri) != (rm["method"].decode("latin-1"), rm["target"].decode("latin-1")) \
                    or start != rm["head_end"]:
                res.violate("C07:next-request:wrong-start",
                            "request %d: head parsed up to offset %d as %s %s, reference head ends at %d with %s %s"
                            % (i, start, req.method, req.uri, rm["head_end"], rm["method"], rm["target"]))
                break
            prev_close = req.should_close()
            log.add("parser", "request", (i, req.method, req.uri))
            body = rm["body"]
            model = io.BytesIO(body)
            got_total = bytearray()
            prog = case["programs"][i] if i < len(case["programs"]) else {"ops": [], "tail": "stop"}
            ops = list(prog["ops"])
            if prog["tail"].startswith("drain"):
                ops.append(["read", None])
                if prog["tail"] == "drain+eof":
                    ops += [["read", 5], ["readline", None], ["next"], ["readlines", None], ["read", None]]
            for op in ops:
                name = op[0]
                arg = op[1] if len(op) > 1 else None
                try:
                    if name == "read":
                        got = req.body.read(arg) if arg is not None else req.body.read()
                    elif name == "readline":
                        got = req.body.readline(arg) if arg is not None else req.body.readline()
                    elif name == "readlines":
                        got = req.body.readlines(arg) if arg is not None else req.body.readlines()
                    elif name == "iter":
                        got = []
                        it = iter(req.body)
                        for _ in range(arg):
                            try:
                                got.append(next(it))
                            except StopIteration:
                                break
                        del it
                    else:
                        try:
                            got = next(req.body)
                        except StopIteration:
                            got = StopIteration
                except Exception as e:
                    # NoMoreData / ChunkMissingTerminator ... : a legitimate failure once the peer has gone
                    if truncated:
                        res.probes["error_in_body_after_eof:" + type(e).__name__] += 1
                        raise _Stop()
                    res.violate("C07:%s:%s" % (name, type(e).__name__),
                                "%r on a complete well-formed stream, request %d op %r" % (e, i, op))
                    raise _Stop()
                log.add("app", name, (arg, len(got) if isinstance(got, (bytes, list)) else -1))
                if truncated:
                    flat = b"".join(got) if isinstance(got, list) else (b"" if got is StopIteration else got)
                    got_total += flat
                    if not body.startswith(bytes(got_total)) and not full[rm["head_end"]:].startswith(b""):
                        pass
                    if not body.startswith(bytes(got_total)):
                        res.violate("C07:%s:wrong-bytes-after-eof" % name,
                                    "request %d: bytes returned after injected EOF are not a prefix of the body: %s"
                                    % (i, bsafe(bytes(got_total[-60:]))))
                        raise _Stop()
                    continue
                pos = model.tell()
                if name == "read":
                    exp = model.read(arg) if arg is not None else model.read()
                elif name == "readline":
                    exp = model.readline(arg) if arg is not None else model.readline()
                elif name == "next":
                    exp = model.readline()
                    if exp == b"":
                        exp = StopIteration
                elif name == "iter":
                    exp = [x for x in (model.readline() for _ in range(arg)) if x]
                else:
                    exp = model.readlines(arg) if arg is not None else model.readlines()
                    if got != exp:
                        model.seek(pos)
                        alt = model.readlines()
                        if got == alt:
                            exp = alt
                        else:
                            model.seek(pos)
                            model.readlines(arg)
                if exp not in (b"", [], StopIteration) and arg != 0:
                    effective += 1
                if got != exp:
                    sz = "none" if arg is None else ("neg" if arg < 0 else "zero" if arg == 0 else
                                                     "small" if arg < 1023 else "blk" if arg <= 1025 else "large")
                    res.violate("C07:%s:mismatch:%s" % (name, sz),
                                "request %d op %r at body offset %d/%d: got %s expected %s; framing=%s seg=%s"
                                % (i, op, pos, len(body), _short(got), _short(exp), rm["framing"], case["seg"]))
                    raise _Stop()
            if truncated and rm["end"] is not None and rm["end"] > len(data):
                break
    except _Stop:
        pass
    res.nontrivial = effective > 0
    res.from_log(log)
    res.shape = h64(full, case["programs"], cuts, case["eof_at"])
    res.states.add(h64(len(ref_msgs), [m["framing"] for m in ref_msgs], case["seg"], truncated))
    res.sample = {"stream": bsafe(full, 120), "program": case["programs"][0], "seg": case["seg"],
                  "eof_at": case["eof_at"], "cuts": list(cuts[:10])}
    return res


class _Stop(Exception):
    pass


def _short(x):
    if x is StopIteration:
        return "StopIteration"
    if isinstance(x, list):
        return "[%d lines, %d bytes, first=%s]" % (len(x), sum(map(len, x)), bsafe(x[0], 30) if x else "")
    return "%d bytes %s" % (len(x), bsafe(x, 40))


def shrink(case):
    n = len(case["msgs"])
    for i in range(n):
        if n > 1:
            yield dict(case, msgs=case["msgs"][:i] + case["msgs"][i + 1:],
                       programs=case["programs"][:i] + case["programs"][i + 1:])
    for i, p in enumerate(case["programs"]):
        for j in range(len(p["ops"])):
            q = dict(p, ops=p["ops"][:j] + p["ops"][j + 1:])
            yield dict(case, programs=case["programs"][:i] + [q] + case["programs"][i + 1:])
        if p["tail"] != "stop":
            yield dict(case, programs=case["programs"][:i] + [dict(p, tail="stop")] + case["programs"][i + 1:])
    if case["seg"] != "max":
        yield dict(case, seg="max")
    if case["eof_at"] is not None:
        yield dict(case, eof_at=None)
