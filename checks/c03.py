"""C03 — the master keeps exactly the configured number of live workers (W4; histories x fault sequences x schedules)."""
import signal

from simkit.core import Result, h64
from simkit.kernel import Sim, current_task
from simkit import preempt
from worlds import master

ID = "C03"
LEVEL = "exploration"
DESIGN_REF = "DESIGN.md §4 C03"
QUICK_RUNS = 8000
THOROUGH_MIN_RUNS = 40000
BATCH = 100
CASE_WALL_S = 60.0
ISOLATE = True      # every run in a forked child: no interpreter state leaks from one simulated server to the next
RULE = ("case = the real Arbiter.run() with 1-4 scripted stub workers (real Worker.__init__/init_process boot) on the "
        "simulated kernel under a seeded history of {worker killed by KILL/TERM/QUIT/INT, scripted worker exit with any "
        "status, boot failure (exit 3) / app load failure (exit 4), worker that ignores TERM and stops heart-beating, "
        "TTIN, TTOU, HUP with a new workers value, signal bursts, signals and worker deaths injected at a seeded "
        "system-call index of the master (SIGCHLD between fork and WORKERS insert, inside manage_workers / reap_workers)} "
        "followed by a fault-free tail; scheduler decisions, fork order (child first), pid wrap-around / reuse, spurious select "
        "wake-ups and spawn delays are drawn from the seed.  distinct = distinct event-trace shapes (actor, event kind "
        "sequence); non-trivial = the history contains at least one event")
ASSUMPTIONS = [
    "requested size = what the master itself handled: TTIN/TTOU/HUP whose handle_* ran (signals coalesced by the kernel "
    "or dropped by the 5-slot SIG_QUEUE do not count), HUP taking the workers value its own load_config() read",
    "bounded liveness is evaluated only after events stop, at last_event + 2*timeout + graceful_timeout + 8 simulated seconds; workers created after the last event are healthy, scripted worker faults occur within 4 s of the worker's creation",
    "stub workers in the fault-free tail boot, heart-beat every timeout/2 and obey TERM; a stub that ignores TERM also stops "
    "heart-beating (so the timeout scan removes it)",
    "no shutdown signal is sent to the master in these histories (a boot failure during shutdown has no specified status)",
    "kernel model: POSIX signal coalescing, SIGCHLD on child exit, waitpid(-1, WNOHANG), PEP 475 resumption of select/sleep",
]
COMPONENTS = {"real": ["gunicorn.arbiter.Arbiter (run, signal, handle_*, reap_workers, manage_workers, spawn_worker incl. child side, "
                       "kill_worker, murder_workers, reload)", "gunicorn.sock.create_sockets/BaseSocket", "gunicorn.pidfile.Pidfile",
                       "gunicorn.workers.workertmp.WorkerTmp", "gunicorn.workers.base.Worker.__init__/init_process/init_signals/handle_*",
                       "gunicorn.util.set_owner_process/close_on_exec/set_non_blocking", "gunicorn.app.base.BaseApplication"],
              "stub": ["kernel (processes, signals, descriptors, pipes, select, file system, clock)", "worker run loop (scripted StubWorker.run)",
                       "fork: child side by re-entry on a deep copy of the arbiter"]}

SIGS = {"ttin": signal.SIGTTIN, "ttou": signal.SIGTTOU, "hup": signal.SIGHUP, "usr1": signal.SIGUSR1, "winch": signal.SIGWINCH}


def make_case(index, rng, tier):
    timeout = rng.choice([3, 4, 6])
    cfg = {"workers": rng.randrange(1, 5), "timeout": timeout, "graceful_timeout": rng.choice([1, 2, 3])}
    events = []
    T = 10.0
    for _ in range(rng.randrange(1, 9)):
        t = round(rng.uniform(0.3, T), 2)
        k = rng.randrange(10)
        if k < 3:
            events.append({"t": t, "do": "killw", "which": rng.randrange(8), "sig": rng.choice(["KILL", "KILL", "TERM", "QUIT", "INT"])})
        elif k < 5:
            events.append({"t": t, "do": "sig", "sig": "ttin"})
        elif k < 7:
            events.append({"t": t, "do": "sig", "sig": "ttou"})
        elif k < 8:
            events.append({"t": t, "do": "hup", "workers": rng.randrange(1, 5)})
        elif k < 9:
            events.append({"t": t, "do": "burst", "sigs": [rng.choice(["ttin", "ttou", "ttin", "usr1", "winch", "hup"]) for _ in range(rng.randrange(2, 8))]})
        else:
            events.append({"t": t, "do": "sig", "sig": rng.choice(["usr1", "winch"])})
    ticks = []
    for _ in range(rng.randrange(0, 4)):
        ticks.append({"tick": rng.randrange(1, 600), "do": rng.choice(["killw", "killw", "ttin", "ttou", "hup"]),
                      "which": rng.randrange(8), "sig": rng.choice(["KILL", "TERM"])})
    scripts = {}
    for age in range(1, 30):
        k = rng.randrange(14)
        if k == 0:
            scripts[str(age)] = {"die_at": round(rng.uniform(0.0, 4.0), 2), "die_how": ["exit", rng.choice([0, 1, 2, 5, 255])]}
        elif k == 1:
            scripts[str(age)] = {"die_at": 0.0, "die_how": ["exit", rng.choice([0, 1])]}
        elif k == 2:
            scripts[str(age)] = {"term": "ignore", "beat_until": round(rng.uniform(0.5, 4.0), 2)}
        elif k == 3:
            scripts[str(age)] = {"boot_delay": round(rng.uniform(0.1, 1.5), 2)}
        elif k == 4:
            scripts[str(age)] = {"term_delay": round(rng.uniform(0.1, 1.0), 2)}
    boot_fail = None
    if rng.randrange(12) == 0:
        boot_fail = {"age": rng.randrange(1, 8), "code": rng.choice([3, 4]), "via": rng.choice(["load", "load", "post_init"]),
                     "sync": rng.randrange(3) == 0}
        if rng.randrange(2) == 0:
            # the application cannot be loaded at all: EVERY worker fails, after an import that takes a moment, one after the other -
            # also while the master is already shutting down because of the first
            boot_fail.update({"age": 1, "all": True, "delay": round(rng.uniform(0.1, 0.8), 2), "stagger": rng.choice([0.0, 0.15, 0.4])})
    bug = {"pyticks": rng.randrange(3) == 0, "fork_child_first": rng.randrange(2) == 0, "spurious_select": rng.randrange(3) == 0, "random_spawn_delay": rng.randrange(2) == 0,
           "pid_wrap": rng.choice([0, 0, 0, 12, 16, 24])}
    # a transient resource shortage: the n-th fork() (never the first) or the creation of a worker's heartbeat file fails once
    sysfault = None
    if boot_fail is None and rng.randrange(8) == 0:
        sysfault = {"op": rng.choice(["fork", "fork", "mkstemp"]), "nth": rng.randrange(2, 7), "errno": rng.choice(["EAGAIN", "ENOMEM"])}
        if sysfault["op"] == "mkstemp":
            sysfault["errno"] = rng.choice(["ENOSPC", "EMFILE"])
    return {"cfg": cfg, "events": sorted(events, key=lambda e: e["t"]), "ticks": ticks, "scripts": scripts,
            "boot_fail": boot_fail, "buggify": bug, "preempt": rng.randrange(0, 4), "sysfault": sysfault}


def run(case, choices):
    res = Result()
    sim = Sim(choices, max_steps=60000, max_time=200.0)
    sim.buggify = dict(case["buggify"])
    if case["buggify"].get("pyticks"):
        preempt.enable()
        sim.py_ticks = True          # eval-breaker points inside gunicorn's Python code are delivery / pre-emption points too
    if case["buggify"].get("pid_wrap"):
        sim.pid_max = 100 + case["buggify"]["pid_wrap"]      # pid numbers wrap: a younger worker can get a smaller pid
    cfg = dict(case["cfg"])
    cfg.update({"bind": ["127.0.0.1:8000"], "pidfile": "/run/g.pid", "proc_name": "m0"})
    scripts = {int(a): dict(s) for a, s in case["scripts"].items()}
    for a, s in scripts.items():
        if "die_how" in s:
            s["die_how"] = tuple(s["die_how"])
    bf = case["boot_fail"]
    if bf:
        bkind = "post_init3" if bf.get("via") == "post_init" and bf["code"] == 3 else "exit%d" % bf["code"]
        scripts[bf["age"]] = {"boot": bkind}
        if bf.get("sync") and bkind != "post_init3":
            scripts[bf["age"]]["boot_at_next_fork"] = True
        if bf.get("all"):
            for a_ in range(1, 16):
                scripts[a_] = {"boot": bkind, "boot_delay": round(bf["delay"] + bf["stagger"] * (a_ - 1), 2)}
    w = master.World(sim, cfg, scripts=scripts)
    sf = case.get("sysfault")
    if sf:
        import errno as _errno
        cnt = {"n": 0}

        def sys_fail(p_, op):
            if op == sf["op"] and p_.name.startswith("master"):
                cnt["n"] += 1
                if cnt["n"] == sf["nth"]:
                    sim.probe("transient_%s_failure" % sf["op"])
                    return getattr(_errno, sf["errno"])
            return None
        sim.sys_fail = sys_fail
        if sf["op"] == "mkstemp":
            def fs_fail(op, path):
                if op == "mkstemp" and str(path).startswith("/tmp"):
                    cnt["n"] += 1
                    if cnt["n"] == sf["nth"]:
                        sim.probe("transient_mkstemp_failure")
                        return getattr(_errno, sf["errno"])
                return None
            sim.fs_fail = fs_fail
    for i in range(case["preempt"]):
        sim.preempt_at.add(1 + choices.choose(3000, "preempt"))
    m = w.start_master()
    model = {"n": cfg["workers"], "loads": 0}
    state = {"boot_exit": None, "forks_after_boot_exit": 0, "last_event": 0.0, "termed": set()}

    def arb():
        return w.masters.get(m.pid)

    def observer(s, actor, kind, detail):
        by_master = actor == m.name
        if kind == "handle" and by_master:
            if detail == "ttin":
                model["n"] += 1
            elif detail == "ttou":
                if model["n"] > 1:
                    model["n"] -= 1
        elif kind == "load_config" and by_master:
            model["n"] = detail[0]
        elif kind == "exit" and isinstance(detail, int) and actor.startswith("worker"):
            code = detail >> 8
            if code in (3, 4) and m.state == "running" and state["boot_exit"] is None:
                state["boot_exit"] = (code, s.now)
        elif kind == "fork" and by_master:
            if state["boot_exit"] is not None:
                state["forks_after_boot_exit"] += 1
        elif kind == "kill" and by_master and detail[1] == "SIGTERM":
            a = arb()
            if a is not None and not getattr(a, "_world_stopping", False) and detail[0] in a.WORKERS:
                # oldest first: no younger worker may be retired while an older tracked one has not been asked to stop
                # (judged against workers already TERMed, not against the instantaneous surplus: manage_workers works
                #  on a snapshot that a SIGCHLD handler may shrink underneath it)
                age = a.WORKERS[detail[0]].age
                older = [pid for pid, wk in a.WORKERS.items() if wk.age < age and pid not in state["termed"]]
                s.probe("surplus_term_checked")
                if older:
                    res.violate("C03:retire-not-oldest",
                                "master sent TERM to worker pid %d (age %d) while older tracked workers %r have not been asked to "
                                "stop: surplus workers must be retired oldest first" % (detail[0], age, sorted(older)))
                state["termed"].add(detail[0])
    sim.observers.append(observer)

    def live_workers():
        return master.live_children(sim, m.pid)

    def do_killw(which, signame, via="time"):
        lw = sorted(live_workers(), key=lambda p: p.pid)
        if not lw:
            return
        victim = lw[which % len(lw)]
        sim.fault("worker_killed:%s:%s" % (signame, via))
        master.send_signal(sim, victim.pid, getattr(signal, "SIG" + signame))

    def do_event(e, via="time"):
        if m.state != "running":
            return
        if int(signal.SIGTTIN) not in m.handlers or int(signal.SIGCHLD) not in m.handlers:
            return          # the master has not installed its handlers yet: outside the property's histories
        state["last_event"] = max(state["last_event"], sim.now)
        if e["do"] == "killw":
            do_killw(e["which"], e["sig"], via)
        elif e["do"] == "sig":
            sim.fault("master_signal:%s:%s" % (e["sig"], via))
            master.send_signal(sim, m.pid, SIGS[e["sig"]])
        elif e["do"] == "hup":
            w.cfgsrc["workers"] = e["workers"]
            w.cfgsrc["proc_name"] = "m%d" % (model["loads"] + 1)
            model["loads"] += 1
            sim.fault("master_signal:hup:%s" % via)
            sim.probe("hup_with_changed_worker_count")
            master.send_signal(sim, m.pid, signal.SIGHUP)
        elif e["do"] == "burst":
            sim.fault("signal_burst")
            for sg in e["sigs"]:
                if sg == "hup":
                    w.cfgsrc["workers"] = 1 + (len(e["sigs"]) % 4)
                master.send_signal(sim, m.pid, SIGS[sg])

    for e in case["events"]:
        sim.after(e["t"], (lambda e=e: do_event(e)))
    mt = m.tasks[0]
    for tk in case["ticks"]:
        if tk["do"] == "killw":
            ev = {"do": "killw", "which": tk["which"], "sig": tk["sig"]}
        elif tk["do"] == "hup":
            ev = {"do": "hup", "workers": 1 + tk["which"] % 4}
        else:
            ev = {"do": "sig", "sig": tk["do"]}
        mt.tick_hooks[tk["tick"]] = (lambda ev=ev: do_event(ev, "tick"))
    T_events = max([e["t"] for e in case["events"]] + [1.0])
    # scripted worker faults happen within 4 s of the worker's creation; a hung worker is detected one timeout later,
    # aborted/killed on the next scans and replaced by a healthy one: 2*timeout + graceful + 8 s bounds the recovery
    settle = 2 * cfg["timeout"] + cfg["graceful_timeout"] + 8.0
    horizon = {"t": T_events + settle}
    w.faults_end = T_events

    def until():
        # events injected at a system-call index may come later than the last timed event: extend the tail
        if state["last_event"] > w.faults_end:
            w.faults_end = state["last_event"]
        if w.faults_end + settle > horizon["t"]:
            horizon["t"] = w.faults_end + settle
        # (one more second after the master has gone: workers it never told to stop are still there then)
        return sim.now >= horizon["t"] or (m.state != "running" and sim.now >= getattr(m, "exit_time", sim.now) + 1.0)
    try:
        why = sim.run(until=until)
        a = arb()
        ctx = lambda: "cfg=%r events=%r ticks=%r scripts=%r boot_fail=%r sysfault=%r buggify=%r t=%.2f" % (
            case["cfg"], case["events"], case["ticks"], {k: v for k, v in sorted(case["scripts"].items())[:8]}, bf, case.get("sysfault"), case["buggify"], sim.now)
        if sim.crash:
            raise master.HarnessError(sim.crash)
        if why in ("step-cap", "time-cap"):
            res.violate("C03:no-progress:" + why, "the simulation hit its %s without the master settling; %s" % (why, ctx()))
        for name, tb in sim.escaped:
            if name == "master":
                res.violate("C03:master-crashed", "an exception escaped the master's main loop: %s; %s" % (tb[-400:], ctx()))
        # (a failing worker that was also sent a signal - by the history or by the master retiring it - may legitimately leave through that
        #  signal's handler with another status)
        unsignalled = [b for b in w.boot_failures if sim.procs.get(b[0]) is not None and not sim.procs[b[0]].sig_received
                       and sim.procs[b[0]].state != "running" and (sim.procs[b[0]].status or 0) & 0x7F == 0]
        if state["boot_exit"] is None and unsignalled and m.state == "running":
            # the exit status is what tells the master: a worker that failed during its boot but left with another status is respawned for ever
            pid_, code_, at_ = unsignalled[0]
            pr_ = sim.procs.get(pid_)
            res.violate("C03:boot-failure-not-fatal:%d" % code_,
                        "worker %d failed while booting at t=%.2f (it owes exit status %d, it left with wait-status %r) and the master is still "
                        "running at t=%.2f after %d boot failures; %s" % (pid_, at_, code_, getattr(pr_, "status", None), sim.now, len(w.boot_failures), ctx()))
        if state["boot_exit"] is not None:
            code, at = state["boot_exit"]
            sim.probe("boot_failure_seen")
            if m.state == "running":
                res.violate("C03:boot-failure-not-fatal:%d" % code,
                            "a worker exited with status %d at t=%.2f but the master is still running at t=%.2f; %s" % (code, at, sim.now, ctx()))
            elif m.status != code << 8:
                res.violate("C03:boot-failure-wrong-status:%d" % code,
                            "a worker exited with status %d; the master exited with wait-status %r instead of %d<<8; %s" % (code, m.status, code, ctx()))
            if m.state != "running":
                left = sorted(p_.pid for p_ in sim.procs.values() if p_.name.startswith("worker") and p_.state == "running")
                if left and sim.now > getattr(m, "exit_time", sim.now) + 0.5:
                    res.violate("C03:worker-outlives-halted-master", "the master halted (status %r) because a worker could not boot, but worker "
                                "process(es) %r are still running %.1f s later: they were never told to stop; %s"
                                % (m.status, left, sim.now - getattr(m, "exit_time", sim.now), ctx()))
            if state["forks_after_boot_exit"] > 3:
                res.violate("C03:respawn-after-boot-failure", "%d forks after the failing boot; %s" % (state["forks_after_boot_exit"], ctx()))
        elif m.state != "running":
            res.violate("C03:master-exited", "the master exited (status %r) although nothing asked it to; logs=%r; %s"
                        % (m.status, [l for l in w.logs if l[0] in ("ERROR", "CRITICAL")][-3:], ctx()))
        else:
            live = live_workers()
            zomb = master.zombie_children(sim, m.pid)
            want = model["n"]
            tracked = set(a.WORKERS)
            livepids = {p.pid for p in live}
            if len(live) != want:
                res.violate("C03:pool-size:%s" % ("low" if len(live) < want else "high"),
                            "after the events stopped and %.1fs of quiet, %d live workers, requested %d (arbiter.num_workers=%d, tracked=%d); %s"
                            % (settle, len(live), want, a.num_workers, len(tracked), ctx()))
            elif tracked != livepids:
                res.violate("C03:tracking:%s" % ("phantom" if tracked - livepids else "untracked"),
                            "WORKERS tracks %r but the live worker children are %r; %s" % (sorted(tracked), sorted(livepids), ctx()))
            if zomb:
                res.violate("C03:zombie-left", "unreaped children remain: %r; %s" % ([z.pid for z in zomb], ctx()))
        res.nontrivial = bool(case["events"] or case["ticks"])
        res.sim_s = sim.now
        res.faults.update(sim.faults)
        res.probes.update(sim.probes)
        if a is not None:
            res.states.add(h64(len(a.WORKERS), a.num_workers, len(a.SIG_QUEUE), m.state))
        for st in getattr(sim, "abs_states", ()):
            res.states.add(st)
        res.from_log(sim.log)
        res.sample = {"cfg": case["cfg"], "events": case["events"][:5], "ticks": case["ticks"], "boot_fail": bf,
                      "forks": len(w.forks), "final_workers": len(live_workers()), "requested": model["n"], "sim_seconds": round(sim.now, 2)}
    finally:
        sim.shutdown()
    return res


def shrink(case):
    ev = case["events"]
    for i in range(len(ev)):
        yield dict(case, events=ev[:i] + ev[i + 1:])
    tk = case["ticks"]
    for i in range(len(tk)):
        yield dict(case, ticks=tk[:i] + tk[i + 1:])
    sc = case["scripts"]
    for k in sorted(sc):
        d = dict(sc)
        del d[k]
        yield dict(case, scripts=d)
    if any(case["buggify"].values()):
        for k, v in case["buggify"].items():
            if v:
                yield dict(case, buggify=dict(case["buggify"], **{k: 0 if k == "pid_wrap" else False}))
    if case["preempt"]:
        yield dict(case, preempt=0)
    if case["boot_fail"]:
        yield dict(case, boot_fail=None)
