"""C04 — graceful shutdown completes in-flight requests and leaves nothing behind (W3 worker half, W4 master half, W4+real workers)."""
import signal

from simkit.core import Result, h64
from simkit.kernel import Sim, current_task
from simkit import preempt
from worlds import master, worker as W

ID = "C04"
LEVEL = "exploration"
DESIGN_REF = "DESIGN.md §4 C04, Appendix C"
QUICK_RUNS = 16000
THOROUGH_MIN_RUNS = 60000
BATCH = 100
CASE_WALL_S = 60.0
ISOLATE = True      # every run in a forked child: no interpreter state leaks from one simulated server to the next
RULE = ("three case families.  worker (W3): the real SyncWorker / ThreadWorker process with 1-2 clients driven into a phase "
        "{accepted-idle, head partly received, application running, response partly written, keep-alive idle}; TERM (or QUIT/INT) "
        "is delivered at a seeded simulated time or at a seeded system-call index of the worker's main thread inside that phase; "
        "applications finish before / after the graceful timeout.  master (W4): the real Arbiter with 1-3 stub workers that obey, "
        "overrun or ignore TERM; TERM/INT/QUIT to the master at a seeded time or system-call index; TCP or unix bind, pid file.  "
        "full (W4 + real sync/gthread workers + clients): the same end to end.  distinct = distinct event-trace shapes; "
        "non-trivial = the stop signal was delivered while at least one worker or connection existed")
ASSUMPTIONS = [
    "'a request the worker has already started reading' = the worker had read at least one byte of it when its TERM handler ran",
    "a response is demanded only if request completion + application time fits into graceful_timeout minus 0.3 s",
    "scheduling slack: worker exit within 1.5 s of max(last in-flight completion, TERM); master exit within graceful_timeout + 1.5 s "
    "of handling the signal (1 s loop period + the 0.1 s polling sleeps of Arbiter.stop)",
    "siginterrupt(SIGTERM, False): the handler does not wake recv/accept-style calls (it runs when they return) but does wake "
    "select/sleep (PEP 475 then resumes them)",
    "the real GeventWorker.run() executes on a shim of the gevent primitives it uses (simkit/gevent_shim.py: Pool, StreamServer, sleep, spawn, Timeout)",
    "the real EventletWorker.run(), _eventlet_serve and _eventlet_stop execute on a shim of the eventlet primitives they use (simkit/eventlet_shim.py: spawn/GreenThread kill-wait-link, GreenPool, GreenSocket accept, sleep, Timeout, StopServe); real eventlet hub scheduling order is not modelled beyond 'one green thread runs until it blocks'",
    "a request on a connection of which no byte had been read is not demanded to be answered",
]
COMPONENTS = {"real": ["Arbiter.run/handle_term|int|quit/halt/stop/kill_workers/reap_workers", "sock.close_sockets/UnixSocket", "Pidfile.unlink",
                       "Worker.init_signals/handle_exit/handle_quit", "SyncWorker.run/run_for_one/wait/handle", "ThreadWorker.run (drain of futures)/handle",
                       "GeventWorker.run (heartbeat loop, drain, stop)/handle_quit + AsyncWorker.handle keep-alive loop"],
              "stub": ["kernel", "stub worker run loop (master family)", "selector/executor/lock (gthread)", "clients"],
              "shim": ["gevent Pool/StreamServer/sleep/spawn/Timeout (simkit.gevent_shim)", "eventlet spawn/GreenPool/GreenSocket/sleep/Timeout/kill (simkit.eventlet_shim)"], "not_covered": ["ssl", "real gevent/eventlet hubs"]}

PHASES = ["idle", "head_partial", "app_running", "resp_partial", "keepalive_idle", "ka_second_partial", "overrun_pipelined"]
SIG = {"TERM": signal.SIGTERM, "QUIT": signal.SIGQUIT, "INT": signal.SIGINT}


def phase_client(rng, phase, gt):
    """Returns (ops, window(start,end) in which the signal lands inside the phase, app_time, completes_at_offset)."""
    t0 = round(rng.uniform(0.2, 1.0), 2)
    ops = [["wait", t0], ["connect"]]
    if phase == "idle":
        d = round(rng.uniform(0.5, 2.5), 2)
        ops += [["wait", d], ["close"]]
        return ops, (t0, t0 + d), 0.0
    if phase == "head_partial":
        r = W_req("/a")
        cut = rng.randrange(1, len(r) - 1)
        d = round(rng.uniform(0.3, 2.0), 2)
        ops += [["send", r[:cut]], ["wait", d], ["send", r[cut:]], ["recv", 30.0], ["await-eof", 15.0]]
        return ops, (t0, t0 + d), 0.0
    if phase == "app_running":
        D = rng.choice([0.5, 1.0, round(gt * 0.6, 2), gt + 1.5])
        ops += [["send", W_req("/sleep/%s" % D)], ["recv", 40.0], ["await-eof", 15.0]]
        return ops, (t0, t0 + D), D
    if phase == "resp_partial":
        n, d = rng.choice([(3, 0.4), (4, 0.5), (2, 1.0)])
        ops += [["send", W_req("/slowbody/%d/%s" % (n, d))], ["recv", 40.0], ["await-eof", 15.0]]
        return ops, (t0 + 0.01, t0 + (n - 1) * d), (n - 1) * d
    if phase == "overrun_pipelined":
        # a response that outlasts the graceful timeout, with a second request already waiting behind it on the same connection: the first
        # may be cut when the time is up - but then nothing else may be written where its body was
        n = 2 * (gt + 3)
        ops += [["send", W_req("/slowbody/%d/0.5" % n) + W_req("/b")], ["recv", 40.0], ["await-eof", 15.0]]
        return ops, (t0 + 0.01, t0 + 1.0), (n - 1) * 0.5
    if phase == "ka_second_partial":
        # a second request on a kept-alive connection whose head is partly received when the signal lands
        r = W_req("/b")
        cut = rng.randrange(1, len(r) - 1)
        g = round(rng.uniform(0.05, 0.4), 2)
        d = round(rng.uniform(0.2, 1.2), 2)
        ops += [["send", W_req("/a")], ["recv", 30.0], ["wait", g], ["send", r[:cut]], ["wait", d], ["send", r[cut:]], ["recv", 30.0], ["await-eof", 15.0]]
        return ops, (t0 + g + 0.02, t0 + g + d), 0.0
    # keepalive_idle
    ops += [["send", W_req("/a")], ["recv", 30.0], ["await-eof", 15.0]]
    return ops, (t0 + 0.01, t0 + 1.0), 0.0


def W_req(path, close=False):
    return "GET %s HTTP/1.1\r\nHost: h\r\n%s\r\n" % (path, "Connection: close\r\n" if close else "")


def make_case(index, rng, tier):
    fam = ["worker", "worker", "master", "master", "full"][index % 5]
    gt = rng.choice([1, 2, 3])
    sig = rng.choice(["TERM", "TERM", "TERM", "QUIT", "INT"])
    if fam == "worker":
        kind = rng.choice(["sync", "gthread", "gevent", "eventlet"])
        phase = rng.choice(PHASES)
        ops, win, app = phase_client(rng, phase, gt)
        clients = [{"ops": ops, "phase": phase}]
        if kind in ("gthread", "gevent", "eventlet") and rng.randrange(2):
            ph2 = rng.choice(PHASES)
            ops2, win2, app2 = phase_client(rng, ph2, gt)
            clients.append({"ops": ops2, "phase": ph2})
        at = round(rng.uniform(win[0], max(win[0] + 0.01, win[1])), 3)
        return {"family": fam, "kind": kind, "graceful_timeout": gt, "sig": sig, "clients": clients, "sig_at": at,
                "extra": "noise-after-term" if sig == "TERM" and rng.randrange(4) == 0 else None,
            "wconn": rng.choice([1, 2, 10]) if kind in ("gevent", "eventlet") else 10,
                "sig_tick": rng.randrange(1, 120) if rng.randrange(3) == 0 else None, "keepalive": rng.choice([1, 2, 3, 5]),
                "sig_on_send": rng.choice([1, 1, 2]) if rng.randrange(8) == 0 else None,
                "sig_on_submit": kind == "gthread" and rng.randrange(6) == 0,
                "binds": rng.choice([1, 1, 2]),
                "threads": rng.randrange(1, 3), "buggify": {"pyticks": rng.randrange(3) == 0, "short_recv": rng.randrange(3) == 0}}
    if fam == "master":
        n = rng.randrange(1, 4)
        scripts = {}
        for age in range(1, 8):
            k = rng.randrange(6)
            if k == 0:
                scripts[str(age)] = {"term_delay": round(gt + rng.uniform(0.5, 3.0), 2)}      # overruns
            elif k == 1:
                scripts[str(age)] = {"term": "ignore"}
            elif k == 2:
                scripts[str(age)] = {"term_delay": round(rng.uniform(0.0, gt * 0.8), 2)}
            elif k == 3:
                scripts[str(age)] = {"boot_delay": round(rng.uniform(0.1, 1.5), 2)}
        return {"family": fam, "workers": n, "graceful_timeout": gt, "sig": sig, "scripts": scripts,
                "sig_at": round(rng.uniform(0.0, 5.0), 2), "sig_tick": rng.randrange(40, 500) if rng.randrange(3) == 0 else None,
                "unix": rng.randrange(3) == 0, "pidfile": rng.randrange(4) != 0,
                "buggify": {"pyticks": rng.randrange(3) == 0, "fork_child_first": rng.randrange(2) == 0, "spurious_select": rng.randrange(3) == 0,
                            "random_spawn_delay": rng.randrange(2) == 0},
                "extra": rng.choice([None, None, "second-signal", "killw", "ttou-before", "hup-before", "rm-socket", "burst-before", "hup-rebind", "quit-after-term", "noise-after-term"])}
    kind = rng.choice(["sync", "gthread", "gevent", "eventlet"])
    clients = []
    for i in range(rng.randrange(1, 4)):
        ph = rng.choice(PHASES[1:])
        ops, win, app = phase_client(rng, ph, gt)
        clients.append({"ops": ops, "phase": ph})
    return {"family": fam, "kind": kind, "workers": rng.randrange(1, 3), "graceful_timeout": gt, "sig": sig, "clients": clients,
            "wconn": rng.choice([1, 2, 10]) if kind in ("gevent", "eventlet") else 10,
            "sig_at": round(rng.uniform(0.3, 2.5), 2), "unix": False, "pidfile": True, "threads": rng.randrange(1, 3),
            "binds": rng.choice([1, 1, 2]), "keepalive": rng.choice([1, 2]), "buggify": {"pyticks": rng.randrange(3) == 0, "fork_child_first": rng.randrange(2) == 0, "short_recv": rng.randrange(3) == 0}}


def track_recvs(sim):
    """client name -> times at which a server process read bytes of that client's connection."""
    recvs = {}

    def obs(s, actor, kind, detail):
        if kind == "recv" and isinstance(detail, tuple) and isinstance(detail[0], str) and detail[0].startswith("srv<-"):
            recvs.setdefault(detail[0][5:], []).append(s.now)
    sim.observers.append(obs)
    return recvs


def judge_second_request(res, case, c, spec, recvs, term_time, gt, fam, ctxf):
    """Phase ka_second_partial: the second request of a kept-alive connection is 'started reading' as soon as a worker read one byte of it."""
    idx = [i for i, (t, what, d) in enumerate(c.log) if what == "response"]
    if not idx or not c.responses or c.responses[0]["status"] != 200 or not c.responses[0]["complete"]:
        return
    sends = [t for t, what, d in c.log[idx[0] + 1:] if what == "sent"]
    if len(sends) < 2:
        return            # the server closed the connection before the second request was on its way (no keep-alive): nothing to demand
    waits = [op[1] for op in spec["ops"] if op[0] == "wait"][1:]
    if sum(waits) >= case.get("keepalive", 2) - 0.15:
        return            # the keep-alive time bounds the idle gap (and, for the async workers, the time a head may take)
    # (the first request was read at or before the instant its response arrived: only reads after the first bytes of the second were sent count)
    read = [t for t in recvs.get(c.name, []) if sends[0] - 1e-9 <= t <= term_time + 1e-9 and t > c.log[idx[0]][0] + 1e-9]
    if not read:
        return
    res.probes["term_in_phase_ka_second_partial"] += 1
    if sends[-1] <= term_time + gt - 0.3:
        got = c.responses[1] if len(c.responses) > 1 else None
        if not (got and got["status"] == 200 and got["complete"]):
            res.violate("C04:%s:%s:in-flight-request-cut:ka_second_partial" % (fam, case.get("kind", "stub")),
                        "client %s: a worker had read the first bytes of its SECOND request (kept-alive connection) at t=%.2f, TERM was handled "
                        "at t=%.2f, the head completed at t=%.2f (fits graceful_timeout=%s), yet the response is %s; client log=%r; %s"
                        % (c.name, read[0], term_time, sends[-1], gt,
                           ("status=%r complete=%r eof=%r rst=%r" % (got["status"], got["complete"], got.get("eof"), got.get("rst"))) if got else "absent",
                           c.log[-7:], ctxf()))


def judge_wire(res, case, clients, specs, fam, ctxf):
    """Whatever the signal and whenever it lands: what a client received of a response that had begun is a prefix of that response -
    never another message (an error page) spliced into it."""
    piece = b"0123456789"
    for c, spec in zip(clients, specs):
        extra = getattr(c, "trailing", b"")
        nreq = "".join(o[1] for o in spec["ops"] if o[0] == "send").count("\r\n\r\n")
        if extra and c.responses and all(r["complete"] for r in c.responses) and len(c.responses) >= nreq:
            res.violate("C04:%s:%s:unsolicited-response:%s" % (fam, case.get("kind", "stub"), case["sig"]),
                        "client %s had received a complete response to each of its %d request(s) and was idle on the kept-alive connection; "
                        "before closing it the server wrote %d more bytes: %r; %s" % (c.name, nreq, len(extra), extra[:80], ctxf()))
        first_line = "".join(o[1] for o in spec["ops"] if o[0] == "send").split("\r\n")[0]
        path = first_line.split(" ")[1] if first_line.count(" ") >= 2 else "/"
        if not path.startswith("/slowbody/") or not c.responses:
            continue
        r = c.responses[0]
        if r["status"] != 200:
            continue
        n = int(path.split("/")[2])
        want = piece * n
        if r["body"] != want[:len(r["body"])]:
            res.violate("C04:%s:%s:garbage-in-started-response:%s" % (fam, case.get("kind", "stub"), case["sig"]),
                        "client %s had received the head and %d body bytes of its 200 response when %s arrived; what followed on the "
                        "connection is not the rest of that body but %r; %s"
                        % (c.name, len(r["body"]), case["sig"], bytes(r["body"][-80:]), ctxf()))


def judge_clients(res, case, clients, specs, recvs, term_time, gt, fam, ctxf):
    """The in-flight clause: every request whose first byte had been read when TERM was handled is answered in full if it fits."""
    judge_wire(res, case, clients, specs, fam, ctxf)
    sigkind = case["sig"]
    for c, spec in zip(clients, specs):
        st = c.stream
        if st is None or term_time is None:
            continue
        if spec["phase"] == "ka_second_partial":
            if sigkind == "TERM" and recvs is not None:
                judge_second_request(res, case, c, spec, recvs, term_time, gt, fam, ctxf)
            continue
        fr = getattr(st.peer, "first_read", None) if st.peer is not None else None
        if fr is None or fr > term_time + 1e-9:
            continue                      # nothing of it had been read: not demanded
        ph = spec["phase"]
        if case.get("kind") in ("gevent", "eventlet") and ph == "head_partial":
            gaps = [op[1] for op in spec["ops"][2:] if op[0] == "wait"]
            if gaps and max(gaps) >= case.get("keepalive", 2) - 0.1:
                continue       # the async keep-alive timeout also bounds how long a request head may take: independent of TERM
        # when does the request complete, how long does the application need
        ops = spec["ops"]
        t = 0.0
        complete_at = None
        app = 0.0
        for op in ops:
            if op[0] == "wait":
                t += op[1]
            elif op[0] == "send":
                if op[1].endswith("\r\n\r\n"):
                    complete_at = t
                    path = op[1].split(" ")[1] if op[1].startswith("GET") else None
            elif op[0] == "recv":
                break
        first_line = "".join(o[1] for o in ops if o[0] == "send").split("\r\n")[0]
        path = first_line.split(" ")[1] if " " in first_line else "/"
        if path.startswith("/sleep/"):
            app = float(path[7:])
        elif path.startswith("/slowbody/"):
            _, _, n, d = path.split("/")
            app = (int(n) - 1) * float(d)
        if complete_at is None:
            continue
        fin = max(complete_at, fr) + app        # processing cannot start before the worker picked the request up
        if sigkind != "TERM":
            continue
        res.probes["term_in_phase_" + ph] += 1
        if fin <= term_time + gt - 0.3:
            ok = c.responses and c.responses[0]["status"] == 200 and c.responses[0]["complete"]
            if not ok:
                got = c.responses[0] if c.responses else None
                res.violate("C04:%s:%s:in-flight-request-cut:%s" % (fam, case.get("kind", "stub"), ph),
                            "client %s (phase %s): the worker had read its first byte at t=%.2f, TERM was handled at t=%.2f, the "
                            "request completes at t=%.2f and the application needs %.2f s (fits graceful_timeout=%s), yet the "
                            "response is %s; client log=%r; %s"
                            % (c.name, ph, fr, term_time, complete_at, app, gt,
                               ("status=%r complete=%r eof=%r rst=%r" % (got["status"], got["complete"], got.get("eof"), got.get("rst"))) if got else "absent",
                               c.log[-6:], ctxf()))


def run(case, choices):
    if case["family"] == "worker":
        return run_worker(case, choices)
    return run_master(case, choices)


def run_worker(case, choices):
    res = Result()
    sim = Sim(choices, max_steps=150000, max_time=200.0)
    sim.buggify = dict(case["buggify"])
    if case["buggify"].get("pyticks"):
        preempt.enable()
        sim.py_ticks = True          # eval-breaker points inside gunicorn's Python code are delivery / pre-emption points too
    gt = case["graceful_timeout"]
    kind = case["kind"]
    two = case.get("binds", 1) == 2
    w = W.WorkerWorld(sim, kind, {"timeout": 30, "graceful_timeout": gt, "keepalive": case["keepalive"], "threads": case["threads"],
                                  "worker_connections": case.get("wconn", 10)}, extra_addrs=[("127.0.0.1", 8001)] if two else ())
    recvs = track_recvs(sim)
    p = w.start_worker()
    # with two listeners the first client talks to the first one and the others to the second (one listener may stay idle)
    clients = [w.add_client("c%d" % i, c["ops"], addr=w.addrs[min(i, len(w.addrs) - 1)] if two else None)
               for i, c in enumerate(case["clients"])]
    state = {"term": None}
    signum = int(SIG[case["sig"]])

    def fire():
        if p.state == "running" and state["term"] is None and int(signal.SIGTERM) in p.handlers:
            state["term"] = "sent"
            sim.fault("worker_signal:%s:%s" % (case["sig"], "tick" if current_task() is not None else "time"))
            sim.kill(p.pid, signum)
    if case.get("sig_on_submit") and kind == "gthread":
        # ... or at the call that hands a connection to the thread pool: the signal handler then runs while the main thread is inside
        # ThreadPoolExecutor.submit(), holding the executor's non-reentrant lock
        def on_submit(s_, actor, kind_, detail):
            if kind_ == "submit" and actor == "worker" and state["term"] is None:
                fire()
        sim.observers.append(on_submit)
        sim.after(case["sig_at"] + 6.0, fire)
    elif case.get("sig_on_send"):
        # deliver at the very system call that puts the n-th piece of a response on the wire (its head is the first): the handler's
        # exception surfaces when send() returns, between "the bytes are out" and whatever the code notes down about that
        seen = {"n": 0}

        def on_send(s_, actor, kind_, detail):
            if kind_ == "send" and actor == "worker" and state["term"] is None:
                seen["n"] += 1
                if seen["n"] == case["sig_on_send"]:
                    fire()
        sim.observers.append(on_send)
        sim.after(case["sig_at"] + 6.0, fire)
    elif case["sig_tick"] is not None:
        # deliver at a system-call index of the worker's main thread, counted from the moment the phase begins
        def arm():
            t = p.tasks[0]
            t.tick_hooks[t.ticks + case["sig_tick"]] = fire
        sim.after(case["sig_at"], arm)
        sim.after(case["sig_at"] + 3.0, fire)
    else:
        sim.after(case["sig_at"], fire)
    ctx = lambda: "family=worker kind=%s sig=%s at=%s tick=%r graceful=%s keepalive=%s threads=%s clients=%r t=%.2f" % (
        kind, case["sig"], case["sig_at"], case["sig_tick"], gt, case["keepalive"], case["threads"],
        [(c["phase"], c["ops"]) for c in case["clients"]], sim.now)
    try:
        sim.run(until=lambda: sim.now > 45.0 or (p.state != "running" and all(c.done for c in clients)))
        if sim.crash:
            raise W.HarnessError(sim.crash)
        handled = [t for t, sg in p.sig_received if sg == signum]
        term_time = handled[0] if handled else None
        for name, tb in sim.escaped:
            res.violate("C04:worker:%s:exception-escaped" % kind, "an exception escaped %s: %s; %s" % (name, tb[-400:], ctx()))
        if w.boot_error and "SystemExit" not in w.boot_error:
            res.violate("C04:worker:%s:run-raised" % kind, "run() raised: %s; %s" % (w.boot_error[-400:], ctx()))
        judge_clients(res, case, clients, case["clients"], recvs, term_time, gt, "worker", ctx)
        if term_time is not None:
            # exit bound
            fins = []
            stuck = False
            for c, spec in zip(clients, case["clients"]):
                t = 0.0
                for op in spec["ops"]:
                    if op[0] == "wait":
                        t += op[1]
                    elif op[0] == "recv":
                        break
                first_line = "".join(o[1] for o in spec["ops"] if o[0] == "send").split("\r\n")[0]
                path = first_line.split(" ")[1] if " " in first_line else "/"
                app = float(path[7:]) if path.startswith("/sleep/") else 0.0
                if path.startswith("/slowbody/"):
                    _, _, n, d = path.split("/")
                    app = (int(n) - 1) * float(d)
                if spec["phase"] == "idle":
                    # the client closes by itself at t: a sync worker blocked in recv on it continues then
                    fins.append(t)
                else:
                    fins.append(t + app)
            bound = max(fins + [term_time]) + 1.5
            if case["sig"] == "TERM" and kind == "gthread":
                bound = max(fins + [term_time + 1.0]) + 1.5
            if kind in ("gevent", "eventlet"):
                # heartbeat loop (1 s) + drain loop (1 s steps, idle keep-alive handlers count as busy until the graceful
                # timeout) + stop(timeout=1)
                bound = max(fins + [term_time]) + gt + 3.5
            exited_at = None
            for e in sim.log.tail:
                pass
            if p.state == "running" and sim.now > bound + 0.5:
                res.violate("C04:worker:%s:no-exit:%s" % (kind, case["sig"]),
                            "%s was handled at t=%.2f, every in-flight request is finished by t=%.2f, but the worker process is still "
                            "running at t=%.2f; %s" % (case["sig"], term_time, max(fins), sim.now, ctx()))
            leftover = [fd for fd, e in p.fds.items()] if p.state == "running" else []
        res.nontrivial = term_time is not None
        res.sim_s = sim.now
        res.faults.update(sim.faults)
        res.probes.update(sim.probes)
        res.states.add(h64("worker", kind, case["sig"], [c["phase"] for c in case["clients"]], term_time is not None, p.state))
        res.from_log(sim.log)
        res.sample = {"family": "worker", "kind": kind, "sig": case["sig"], "phases": [c["phase"] for c in case["clients"]],
                      "signal_handled_at": term_time, "responses": [[(r["status"], r["complete"]) for r in c.responses] for c in clients],
                      "worker_state": p.state}
    finally:
        sim.shutdown()
    return res


def run_master(case, choices):
    res = Result()
    sim = Sim(choices, max_steps=150000, max_time=200.0)
    sim.buggify = dict(case["buggify"])
    if case["buggify"].get("pyticks"):
        preempt.enable()
        sim.py_ticks = True          # eval-breaker points inside gunicorn's Python code are delivery / pre-emption points too
    gt = case["graceful_timeout"]
    fam = case["family"]
    bind = "unix:/run/g.sock" if case["unix"] else "127.0.0.1:8000"
    two = case.get("binds", 1) == 2 and not case["unix"]
    cfg = {"workers": case["workers"], "timeout": 30, "graceful_timeout": gt, "bind": [bind] + (["127.0.0.1:8001"] if two else []),
           "proc_name": "m0"}
    if case["pidfile"]:
        cfg["pidfile"] = "/run/g.pid"
    scripts = {int(a): dict(s) for a, s in case.get("scripts", {}).items()}
    w = master.World(sim, cfg, scripts=scripts)
    if case["unix"]:
        w.addr = "/run/g.sock"
    clients = []
    if fam == "full":
        cfg.update({"threads": case["threads"], "keepalive": case["keepalive"], "worker_connections": case.get("wconn", 10)})
        w.cfgsrc.update(cfg)
        w.use_real_workers(case["kind"])
        clients = [w.add_client("c%d" % i, c["ops"], addr=("127.0.0.1", 8001) if two and i > 0 else None)
                   for i, c in enumerate(case["clients"])]
    recvs = track_recvs(sim)
    m = w.start_master()
    signum = int(SIG[case["sig"]])
    state = {"sent": None, "worker_term": {}}

    def fire():
        if m.state == "running" and state["sent"] is None and signum in m.handlers and int(signal.SIGCHLD) in m.handlers:
            state["sent"] = sim.now
            sim.fault("master_signal:%s:%s" % (case["sig"], "tick" if current_task() is not None else "time"))
            sim.kill(m.pid, signum)
    if case.get("sig_tick") is not None:
        m.tasks[0].tick_hooks[case["sig_tick"]] = fire
        sim.after(8.0, fire)
    else:
        sim.after(case["sig_at"], fire)
    if case.get("extra") == "second-signal":
        sim.after(case["sig_at"] + 0.5, lambda: m.state == "running" and sim.kill(m.pid, signum))
    elif case.get("extra") in ("ttou-before", "hup-before"):
        # a worker is being retired (and may still be busy finishing) when the stop signal arrives
        def retire():
            if m.state == "running" and int(signal.SIGCHLD) in m.handlers:
                sim.fault("master_signal:" + case["extra"])
                sim.kill(m.pid, int(signal.SIGTTOU if case["extra"] == "ttou-before" else signal.SIGHUP))
        sim.after(max(0.0, case["sig_at"] - 0.4), retire)
    elif case.get("extra") == "quit-after-term" and case["sig"] == "TERM":
        # the operator loses patience: QUIT half a second after TERM, while the master waits for workers that take their time
        def quit_now():
            if m.state == "running":
                state["quit_at"] = sim.now
                sim.fault("master_signal:quit-after-term")
                sim.kill(m.pid, int(signal.SIGQUIT))
        sim.after(case["sig_at"] + 0.5, quit_now)
    elif case.get("extra") == "noise-after-term" and case["sig"] == "TERM":
        # a signal that asks for something else (log rotation, pool size, reload ...) reaches the master while it waits for its workers:
        # whatever it makes of it, the stop stays a graceful one
        def noise():
            if m.state == "running":
                sg = [signal.SIGUSR1, signal.SIGWINCH, signal.SIGTTIN, signal.SIGTTOU, signal.SIGHUP, signal.SIGTERM][int(case["sig_at"] * 1000) % 6]
                sim.fault("master_signal:noise-after-term:%s" % sg.name)
                sim.kill(m.pid, int(sg))
        sim.after(case["sig_at"] + 0.3, noise)
    elif case.get("extra") == "hup-rebind" and case["unix"]:
        # a reload that moves the server to another unix socket path, some time before it is stopped: the file of the first socket is
        # the server's own creation as well
        def rebind():
            if m.state == "running" and int(signal.SIGCHLD) in m.handlers:
                sim.fault("master_signal:hup-rebind")
                w.cfgsrc["bind"] = ["unix:/run/g2.sock"]
                sim.kill(m.pid, int(signal.SIGHUP))
        sim.after(max(0.0, case["sig_at"] - 0.6), rebind)
    elif case.get("extra") == "burst-before":
        # five other signals reach the master in the same instant, just ahead of the stop signal
        def burst():
            if m.state == "running" and int(signal.SIGCHLD) in m.handlers:
                sim.fault("master_signal_burst")
                for sg in (signal.SIGUSR1, signal.SIGWINCH, signal.SIGTTIN, signal.SIGTTOU, signal.SIGHUP):
                    sim.kill(m.pid, int(sg))
        sim.after(case["sig_at"], burst)
    elif case.get("extra") == "rm-socket" and case["unix"]:
        # the environment removed the socket file before the server is stopped (a /tmp cleaner, an operator): nothing of the server's own
        # may be left behind all the same, and the exit status stays 0
        def rm():
            if "/run/g.sock" in sim.fs:
                sim.fault("unix_socket_file_removed_by_environment")
                del sim.fs["/run/g.sock"]
        sim.after(max(0.0, case["sig_at"] - 0.2), rm)
    elif case.get("extra") == "killw":
        def kw():
            lw = sorted(master.live_children(sim, m.pid), key=lambda p: p.pid)
            if lw and m.state == "running":
                sim.kill(lw[0].pid, int(signal.SIGKILL))
        sim.after(case["sig_at"] + 0.2, kw)

    def observer(s, actor, kind, detail):
        if kind == "kill" and actor == m.name and detail[1] == "SIGQUIT" and case["sig"] == "TERM" \
                and case.get("extra") not in ("quit-after-term", "second-signal") and "quit_by_master" not in state:
            state["quit_by_master"] = (s.now, detail[0])
        if kind == "handler" and actor.startswith("worker") and detail == "SIGTERM":
            t = current_task()
            state["worker_term"].setdefault(t.proc.pid, s.now)
        elif kind == "exit" and actor == m.name and state.get("survivors") is None:
            # "at that point no worker process survives": judged at the very instant the master exits
            state["survivors"] = sorted(c.pid for c in s.procs.values() if c.ppid == m.pid and c.state == "running")
    sim.observers.append(observer)
    ctx = lambda: "family=%s kind=%s sig=%s at=%s tick=%r workers=%d graceful=%s unix=%s pidfile=%s scripts=%r clients=%r extra=%r t=%.2f" % (
        fam, case.get("kind", "stub"), case["sig"], case["sig_at"], case.get("sig_tick"), case["workers"], gt, case["unix"], case["pidfile"],
        case.get("scripts"), [(c["phase"], c["ops"]) for c in case.get("clients", [])], case.get("extra"), sim.now)
    try:
        sim.run(until=lambda: sim.now > 40.0 or (m.state != "running" and all(c.done for c in clients)
                                                 and not [p for p in sim.procs.values() if p.name.startswith("worker") and p.state == "running"]))
        if sim.crash:
            raise master.HarnessError(sim.crash)
        if state.get("quit_by_master") and not any(sg in (int(signal.SIGQUIT), int(signal.SIGINT)) for _, sg in m.sig_received):
            res.violate("C04:%s:graceful-stop-turned-quick" % fam,
                        "the master was asked to stop gracefully (TERM, never QUIT or INT), yet it sent SIGQUIT to worker %d at t=%.2f: the "
                        "requests in flight are cut; signals it received: %r; %s"
                        % (state["quit_by_master"][1], state["quit_by_master"][0], [(round(t_, 2), sg) for t_, sg in m.sig_received][:6], ctx()))
        handled = [t for t, sg in m.sig_received if sg == signum]
        t_sig = handled[0] if handled else None
        if t_sig is None and state["sent"] is not None and m.state != "running":
            t_sig = state["sent"]
        if state["sent"] is not None:
            workers = [p for p in sim.procs.values() if p.name.startswith("worker")]
            a_ = w.masters.get(m.pid)
            if m.state == "running" and case.get("extra") == "burst-before" and t_sig is not None and a_ is not None \
                    and not getattr(a_, "_world_stopping", False):
                res.violate("C04:%s:stop-signal-lost-in-burst:%s" % (fam, case["sig"]),
                            "%s was delivered to the master at t=%.2f right behind five other signals; its handler found the signal queue full "
                            "(5 entries) and dropped it: the master is still running at t=%.2f; %s" % (case["sig"], t_sig, sim.now, ctx()))
            elif m.state == "running":
                res.violate("C04:%s:master-did-not-exit:%s" % (fam, case["sig"]),
                            "%s sent at t=%.2f; the master is still running at t=%.2f; %s" % (case["sig"], state["sent"], sim.now, ctx()))
            else:
                exit_t = None
                for e in sim.log.tail:
                    if e[1] == m.name and e[2] == "exit":
                        exit_t = True
                if m.status != 0:
                    res.violate("C04:%s:master-exit-status:%r" % (fam, m.status),
                                "the master exited with wait-status %r after %s; escaped=%r; %s" % (m.status, case["sig"], sim.escaped[:1], ctx()))
                m_exit = getattr(m, "exit_time", None)
                alive = state.get("survivors") or [p.pid for p in workers if p.state == "running"]
                if alive:
                    res.violate("C04:%s:worker-survives" % fam, "when the master exited, worker process(es) %r were still running; %s"
                                % (alive, ctx()))
                l = sim.listener_for(w.addr)
                if l is not None and l.open:
                    res.violate("C04:%s:listener-left-open" % fam, "after shutdown a listening socket for %r is still open; %s" % (w.addr, ctx()))
                if case["unix"] and case.get("extra") == "hup-rebind":
                    for pth in ("/run/g.sock", "/run/g2.sock"):
                        if pth in sim.fs:
                            res.violate("C04:%s:unix-socket-left-after-rebind:%s" % (fam, pth[-7:]),
                                        "the server was moved from unix:/run/g.sock to unix:/run/g2.sock by a reload and then stopped; %s is "
                                        "still there; %s" % (pth, ctx()))
                elif case["unix"] and "/run/g.sock" in sim.fs:
                    res.violate("C04:%s:unix-socket-left" % fam, "the unix socket file is still there after shutdown; %s" % ctx())
                if case["pidfile"] and "/run/g.pid" in sim.fs:
                    res.violate("C04:%s:pidfile-left" % fam, "the pid file is still there after shutdown; %s" % ctx())
                if getattr(m, "exit_time", None) is not None and t_sig is not None:
                    took = m.exit_time - t_sig
                    limit = gt + 1.5
                    if took > limit + 1e-6:
                        res.violate("C04:%s:shutdown-too-slow:%s" % (fam, case["sig"]),
                                    "the master handled %s at t=%.2f and exited %.2f s later (graceful_timeout=%s + 1.5 s slack); %s"
                                    % (case["sig"], t_sig, took, gt, ctx()))
                    booting = any(ft >= t_sig - 1.5 for ft, _pp, _cp, _k in w.forks)      # a worker still booting cannot obey QUIT yet
                    if state.get("quit_at") is not None and m.exit_time - state["quit_at"] > 1.5 + 1e-6 and t_sig is not None \
                            and t_sig <= state["quit_at"]:
                        res.violate("C04:%s:quit-during-graceful-stop-ignored" % fam,
                                    "TERM at t=%.2f, QUIT at t=%.2f while the master was waiting for its workers: the master only exited %.2f s "
                                    "after the QUIT (graceful_timeout=%s) - the second signal sat in the queue that stop() never reads; %s"
                                    % (t_sig, state["quit_at"], m.exit_time - state["quit_at"], gt, ctx()))
                    if case["sig"] != "TERM" and fam == "full" and took > 1.5 + 1e-6 and not booting:
                        # 'promptly, without waiting for requests': with real workers the wait can only come from a worker that does not
                        # leave on QUIT while a request is in flight
                        res.violate("C04:full:%s:quick-shutdown-waits-for-requests" % case["kind"],
                                    "%s: the master took %.2f s to exit (graceful_timeout=%s): a %s worker with a request in flight does not leave "
                                    "on QUIT, the master waits for it until it finishes or is killed; %s" % (case["sig"], took, gt, case["kind"], ctx()))
                    if case["sig"] != "TERM" and fam == "master" and took > 1.5 + 1e-6 and not booting and not any(
                            s.get("boot_delay") for s in scripts.values()):
                        res.violate("C04:%s:quick-shutdown-slow" % fam, "%s: the master took %.2f s to exit although workers obey QUIT at once; %s"
                                    % (case["sig"], took, ctx()))
            if fam == "full" and case["sig"] == "TERM":
                # per-client clause against the TERM time of the worker that served it (workers get TERM from the master's stop())
                # the graceful window runs from the moment the master handles TERM (Arbiter.stop computes its limit then)
                judge_clients(res, case, clients, case["clients"], recvs, t_sig, gt, "full", ctx)
        for name, tb in sim.escaped:
            res.violate("C04:%s:exception-escaped:%s" % (fam, name.rstrip("0123456789")), "an exception escaped %s: %s; %s" % (name, tb[-400:], ctx()))
        res.nontrivial = state["sent"] is not None
        res.sim_s = sim.now
        res.faults.update(sim.faults)
        res.probes.update(sim.probes)
        res.states.add(h64(fam, case["sig"], case["workers"], m.state, m.status, case["unix"], case["pidfile"]))
        res.from_log(sim.log)
        res.sample = {"family": fam, "sig": case["sig"], "workers": case["workers"], "graceful_timeout": gt, "unix": case["unix"],
                      "master_status": m.status, "signal_at": state["sent"], "sim_seconds": round(sim.now, 2)}
    finally:
        sim.shutdown()
    return res


def shrink(case):
    if "clients" in case and len(case["clients"]) > 1:
        for i in range(len(case["clients"])):
            yield dict(case, clients=case["clients"][:i] + case["clients"][i + 1:])
    if case.get("sig_tick") is not None:
        yield dict(case, sig_tick=None)
    if case.get("scripts"):
        for k in sorted(case["scripts"]):
            d = dict(case["scripts"])
            del d[k]
            yield dict(case, scripts=d)
    if case.get("extra"):
        yield dict(case, extra=None)
    for k, v in case["buggify"].items():
        if v:
            yield dict(case, buggify=dict(case["buggify"], **{k: False}))
    if case.get("workers", 1) > 1:
        yield dict(case, workers=case["workers"] - 1)
