"""C02 — responses on the wire are correctly framed; keep-alive only when safe (W2)."""
import errno

from simkit.core import Result, EventLog, h64, bsafe
from oracles import resp_ref
from worlds import conn, appgen

ID = "C02"
LEVEL = "exploration"
DESIGN_REF = "DESIGN.md §4 C02, Appendix B"
QUICK_RUNS = 300000
THOROUGH_MIN_RUNS = 300000
BATCH = 2000
CASE_WALL_S = 30.0
RULE = ("case = 1-3 pipelined client requests (HTTP/1.0|1.1, GET/HEAD/POST/PUT, Connection: close/keep-alive/absent, "
        "Expect) x one generated WSGI program per request (status incl. 204/304, headers with/without Content-Length, "
        "declared length shorter than the output, body as generator / list / write() / wsgi.file_wrapper over an in-memory "
        "file with offset, with/without fileno and close; empty chunks; failure before/after start_response, in chunk k, "
        "at the end, in close()) x worker family x keepalive x sendfile on/off x network fault (peer gone at I/O op k; "
        "lseek/fstat failing on the sendfile path; segmentation).  The client end parses the wire with the strict "
        "response reader.  distinct = distinct (requests, programs, family, cfg, fault) by hash; non-trivial = at least "
        "one application call completed")
ASSUMPTIONS = [
    "well-behaved programs only in the main oracle: no body for HEAD/204/304, never fewer bytes than a declared Content-Length, "
    "no hop-by-hop headers (C09 covers those)",
    "HEAD/204/304 programs that do produce a body run as a separate, separately keyed sub-check (bodyless-with-body)",
    "after an application failure once bytes were sent: the wire must be a prefix of the well-formed response followed by "
    "close, never a forged terminator; before any byte: exactly one 500 page",
    "under an injected network fault the wire must be a prefix of well-formed responses",
    "input/program-dominated property: the simulated connection adds failure at write k, peer loss at I/O op k, "
    "keep-alive continuation on the live connection and the sendfile fallback under lseek/fstat faults",
]
COMPONENTS = {"real": ["gunicorn.http.wsgi.Response/create/FileWrapper", "util.write/write_chunk/write_error",
                       "SyncWorker.handle/handle_request", "ThreadWorker.handle/handle_request",
                       "AsyncWorker.handle/handle_request", "Message.should_close"],
              "stub": ["peer + network (SimSock)", "application (generated program)", "gthread poller/executor (connection driver)",
                       "os.lseek/os.fstat over in-memory files", "async timeout context"]}


def make_case(index, rng, tier):
    n = rng.randrange(1, 4)
    sub = rng.randrange(12) == 0          # bodyless-with-body sub-check
    reqs = [appgen.gen_request(rng) for _ in range(n)]
    progs = [appgen.gen_program(rng, allow_1xx=True) for _ in range(n)]
    for r, p in zip(reqs, progs):
        if p["status"].startswith("101") and (r["version"] == [1, 0] or n > 1 or sub or r["method"] == "HEAD" or p["fail"]):
            # a well-behaved application does not answer an HTTP/1.0 request with a 1xx status; and once the protocol is switched the
            # connection is no longer HTTP: only judged for a single plain request
            p["status"] = "204 No Content"
    if sub:
        for r, p in zip(reqs, progs):
            p["head_aware"] = False
            p["fail"] = None
            if p["kind"] == "file":
                p["kind"] = "iter"
            if rng.randrange(2):
                p["status"] = rng.choice(appgen.BODYLESS)
            else:
                r["bytes"] = r["bytes"].replace(r["method"] + " ", "HEAD ", 1) if not r["body"] and "Expect" not in r["bytes"] else r["bytes"]
                r["method"] = r["bytes"].split(" ", 1)[0]
                if r["method"] != "HEAD":
                    p["status"] = rng.choice(appgen.BODYLESS)
            p["chunks"] = [c for c in (p["chunks"] or ["late"]) if c] or ["late"]
            p["headers"] = [h for h in p["headers"] if h[0] != "Content-Length"]
            p["cl"] = None
    if not sub and rng.randrange(6) == 0:
        # the error-handler idiom of PEP 3333: a first start_response whose status and headers (incl. a Content-Length that has nothing to do
        # with the final body) are replaced by a second call with exc_info before anything was sent
        p = progs[rng.randrange(n)]
        if p["fail"] not in ("before_sr",):
            p["first_sr"] = {"status": rng.choice(["200 OK", "500 First", "204 No Content"]),
                             "headers": rng.choice([[["Content-Length", str(rng.choice([0, 3, 7, 100000]))]], [["X-First", "1"]],
                                                    [["Content-Length", "5"], ["X-First", "1"]], [["Content-Type", "text/first"]]])}
    if rng.randrange(5) == 0:
        # a slow application: it waits (sleeps, does its own I/O) before some of its chunks - longer than the keep-alive time in some cases.
        # The keep-alive timeout of the async workers bounds the wait for the NEXT request, never the application
        p = progs[rng.randrange(n)]
        if p["kind"] in ("iter", "write") and p["chunks"]:
            p["delays"] = [rng.choice([0, 0, 0.5, 1.5, 3.0, 6.0]) for _ in p["chunks"]]
    fault = None
    k = rng.randrange(10)
    if k == 0:
        fault = {"kind": rng.choice(["EOF", "ECONNRESET", "EPIPE"]), "at": rng.randrange(0, 12)}
    elif k == 1:
        fault = {"kind": "lseek"}
    elif k == 2:
        fault = {"kind": "fstat"}
    return {"reqs": reqs, "progs": progs, "family": rng.choice(conn.FAMILIES), "keepalive": rng.choice([0, 2, 2, 5]),
            "sendfile": rng.choice([None, None, False]), "fault": fault, "sub": sub,
            "seg": rng.choice(["max", "max", "small"])}


def _ka_allowed(req, r):
    hs = resp_ref.header(r, b"connection")
    says = hs[0].lower() if hs else b""
    return (r["framing"] in ("length", "chunked", "none") and r["complete"] is True
            and not req["wants_close"] and says == b"keep-alive")


class _Done(Exception):
    pass


def run(case, choices):
    res = Result()
    log = EventLog()
    try:
        return _run(case, choices, res, log)
    except _Done:
        res.nontrivial = True
        return res


def _run(case, choices, res, log):
    conn.reset_run()
    fam = case["family"]
    kw = {"keepalive": case["keepalive"]}
    if case["sendfile"] is False:
        kw["sendfile"] = False
    cfg = conn.make_cfg(**kw)
    state = conn.AppState()
    worker = conn.make_worker(fam, cfg, conn.make_app(case["progs"], state))
    data = "".join(r["bytes"] for r in case["reqs"]).encode("latin-1")
    cuts = ()
    if case["seg"] == "small":
        out, p = [], 0
        while p < len(data):
            p += 1 + choices.choose(80)
            out.append(p)
        cuts = tuple(c for c in out if c < len(data))
    fault = case["fault"] or {}
    fa = fk = None
    if fault.get("kind") in ("EOF", "ECONNRESET", "EPIPE"):
        fa, fk = fault["at"], fault["kind"]
    elif fault.get("kind") in ("lseek", "fstat"):
        conn.FAKE_OS.fail[fault["kind"]] = errno.EINVAL
    sock = conn.SimSock(data, cuts, fault_at=fa, fault_kind=fk or "EOF")
    esc = conn.serve(worker, fam, sock)
    wire = bytes(sock.wire)
    netfault = sock.fault_fired is not None
    if netfault:
        res.faults["peer_gone:%s@%s" % (fk, sock.fault_fired[1])] += 1
    for f in conn.FAKE_OS.fired:
        res.faults["syscall_fail:" + f] += 1
        res.probes["sendfile_fallback_path"] += 1
    sub = case["sub"]
    tag = ("C02:%s:bodyless-with-body" % fam) if sub else ("C02:%s" % fam)
    ctx = lambda: "family=%s keepalive=%s sendfile=%r fault=%r reqs=%s progs=%s wire=%s" % (
        fam, case["keepalive"], case["sendfile"], case["fault"],
        [(r["method"], r["version"], r["wants_close"]) for r in case["reqs"]],
        [{k: (v if k != "chunks" else [c[:12] for c in v]) for k, v in p.items() if k in ("status", "kind", "chunks", "cl", "fail", "file", "pre_write", "first_sr")}
         for p in case["progs"]][:3], bsafe(wire, 400))
    log.add(fam, "served", (len(sock.ops), len(wire), state.calls, sock.closed, sock.shut))
    res.from_log(log)
    res.shape = h64(case["reqs"], case["progs"], fam, case["keepalive"], case["sendfile"], case["fault"])
    _violate = res.violate

    def V(key, msg):
        _violate(key, msg)
        raise _Done()
    res.violate = V

    if esc is not None:
        res.violate(tag + ":exception-escaped:" + type(esc).__name__, "handle() let %r escape; %s" % (esc, ctx()))
    if sock.closed < 1:
        res.violate(tag + ":not-closed", "connection not closed when handle() returned; %s" % ctx())

    reqs = case["reqs"]
    resps, probs, rest = resp_ref.parse(wire, [{"method": r["method"], "version": r["version"]} for r in reqs] + [{"method": "GET"}])
    if len(reqs) == 1 and case["progs"][0]["status"].startswith("101") and not netfault:
        # a 1xx status from the application (protocol switch): its head, and not a byte of HTTP framing behind it
        heads = [r for r in resps if r.get("code") == 101]
        if not heads or any(r.get("code") != 100 for r in resps[:resps.index(heads[0])]):
            res.violate(tag + ":1xx:no-head", "the application answered 101 but the wire does not start with that head; %s" % ctx())
        elif wire[heads[0]["end"]:]:
            res.violate(tag + ":1xx:bytes-after-head", "the application answered 101 Switching Protocols without a body; the server put %r "
                        "behind the head (chunked framing of a response that has none): the peer reads it as the first bytes of the new "
                        "protocol; %s" % (bytes(wire[heads[0]["end"]:][:40]), ctx()))
        raise _Done()
    finals = [r for r in resps if not r.get("interim")]
    stop = False
    for i, r in enumerate(finals):
        if stop or i >= len(reqs):
            if not netfault:
                res.violate(tag + ":extra-response", "a response follows where none may; %s" % ctx())
            break
        req, prog = reqs[i], case["progs"][i]
        last = i == len(finals) - 1
        shape = "%s+%s%s" % (prog["kind"], "cl" if prog["cl"] is not None else "nocl",
                             "+empty" if not appgen.expected_body(prog, "GET") else "")
        if r.get("partial_head") or r["code"] is None:
            if not netfault and i not in state.failed:
                res.violate("%s:incomplete-head:%s" % (tag, shape), "response %d: head incomplete; %s" % (i, ctx()))
            stop = True
            continue
        if resp_ref.is_error_page(r):
            # server-generated error page: legitimate only if the application failed before any byte was sent
            if i not in state.failed and not netfault:
                res.violate("%s:error-page-for-good-program:%d" % (tag, r["code"]), "response %d is an error page; %s" % (i, ctx()))
            if r["complete"] is not True and not netfault:
                res.violate(tag + ":error-page-incomplete", "error page incomplete; %s" % ctx())
            stop = True
            continue
        want_code = int(prog["status"].split()[0])
        if r["code"] != want_code or tuple(req["version"]) != r["version"]:
            res.violate("%s:wrong-status-line" % tag, "response %d: %r %r, expected %d HTTP/%s; %s"
                        % (i, r["version"], r["code"], want_code, req["version"], ctx()))
        for code, detail in resp_ref.server_lines_ok(r):
            res.violate("%s:%s" % (tag, code), "response %d: %s; %s" % (i, code, ctx()))
        exp = appgen.expected_body(prog, req["method"])
        if want_code in (204, 304):
            exp_wire = b""
        else:
            exp_wire = exp
        if sub:
            # sub-check: the application produced a body although the response can have none.  Only the
            # desynchronisation of a kept-alive connection is judged here.
            raw = b"".join(c.encode("latin-1") for c in prog["chunks"])
            bodyless = req["method"] == "HEAD" or want_code in (204, 304)
            if bodyless and raw and wire[r["end"]:r["end"] + len(raw)] == raw[:len(wire) - r["end"]] and len(wire) > r["end"] \
                    and _ka_allowed(req, r):
                res.violate("%s:desync:%s" % (tag, "HEAD" if req["method"] == "HEAD" else str(want_code)),
                            "response %d has no body by definition but %d body bytes follow it on a connection the server "
                            "keeps alive: the next response is misframed; %s" % (i, len(raw), ctx()))
            raise _Done()
        failed = i in state.failed
        if r["framing"] == "chunked" and r["complete"] is True and wire[r["end"]:r["end"] + 5] == b"0\r\n\r\n":
            res.violate("%s:double-terminator:%s" % (tag, shape),
                        "response %d: two terminating chunks (the second is read as the start of the next response); %s" % (i, ctx()))
        if r["complete"] is True or r["framing"] == "close":
            if r["framing"] == "close":
                if failed or netfault:
                    if not exp_wire.startswith(r["body"]):
                        res.violate("%s:wrong-body:%s" % (tag, shape), "response %d: close-delimited body is not a prefix of the output; %s" % (i, ctx()))
                elif r["body"] != exp_wire:
                    res.violate("%s:wrong-body:%s" % (tag, shape), "response %d: body %s != application output %s; %s"
                                % (i, bsafe(r["body"], 50), bsafe(exp_wire, 50), ctx()))
                if not last:
                    res.violate("%s:response-after-close-delimited" % tag, "a response follows a close-delimited one; %s" % ctx())
            else:
                if r["body"] != exp_wire:
                    if failed and r["framing"] == "chunked":
                        res.violate("%s:forged-terminator:%s" % (tag, shape),
                                    "response %d: the application failed (%s) after %d of %d bytes but the chunked stream was "
                                    "terminated as if complete; %s" % (i, prog["fail"], len(r["body"]), len(exp_wire), ctx()))
                    else:
                        res.violate("%s:wrong-body:%s" % (tag, shape), "response %d: body %s (%d) != application output %s (%d); %s"
                                    % (i, bsafe(r["body"], 50), len(r["body"]), bsafe(exp_wire, 50), len(exp_wire), ctx()))
                elif failed and r["framing"] == "chunked" and prog["fail"] not in ("close",):
                    res.violate("%s:forged-terminator:%s" % (tag, shape),
                                "response %d: the application failed (%s) but the chunked stream was terminated normally; %s"
                                % (i, prog["fail"], ctx()))
        else:
            # incomplete response
            if not (failed or netfault):
                res.violate("%s:incomplete:%s" % (tag, shape), "response %d (%s) incomplete without failure or fault; %s"
                            % (i, r["framing"], ctx()))
            elif not exp_wire.startswith(r["body"]):
                res.violate("%s:wrong-body:%s" % (tag, shape), "response %d: partial body is not a prefix of the output; %s" % (i, ctx()))
            stop = True
            continue
        # persistence
        allowed = _ka_allowed(req, r) and not failed
        if not allowed:
            stop = True
            ended = r["end"] if r["framing"] != "close" else len(wire)
            if any(w >= ended for w in sock.recv_after) and r["framing"] != "close" and not netfault:
                says = resp_ref.header(r, b"connection")
                if (says and says[0].lower() == b"close") or req["wants_close"] or r["framing"] == "close":
                    res.violate("%s:read-after-nonpersistent:%s" % (tag, shape),
                                "response %d is not persistent (says %r, client wants_close=%s, framing %s) but the server read "
                                "the connection again; %s" % (i, says, req["wants_close"], r["framing"], ctx()))
        says = resp_ref.header(r, b"connection")
        if says and says[0].lower() == b"keep-alive" and r["framing"] == "close" and want_code not in (204, 304) \
                and req["method"] != "HEAD":
            res.violate("%s:keepalive-on-close-delimited:%s" % (tag, shape), "response %d announces keep-alive but is delimited by close; %s" % (i, ctx()))
    if not netfault and not sub:
        for code, detail in probs:
            res.violate("%s:wire:%s" % (tag, code), "%s %s; %s" % (code, detail, ctx()))
    if rest and not netfault and not sub:
        k = "double-terminator" if rest.startswith(b"0\r\n\r\n") else "trailing-bytes"
        shape = ""
        if finals and len(finals) <= len(case["progs"]):
            p = case["progs"][len(finals) - 1]
            shape = ":%s%s" % (p["kind"], "+empty" if not appgen.expected_body(p, "GET") else "")
        res.violate("%s:%s%s" % (tag, k, shape), "bytes follow the last response: %s; %s" % (bsafe(rest, 40), ctx()))
    if not netfault and not sub and not any(p["fail"] for p in case["progs"][:len(finals)]):
        # every request the server was allowed to read must have been answered
        pass
    res.nontrivial = state.completed > 0
    res.from_log(log)
    res.shape = h64(case["reqs"], case["progs"], fam, case["keepalive"], case["sendfile"], case["fault"])
    res.states.add(h64(fam, [r["framing"] for r in finals], [r["complete"] for r in finals], netfault, sub))
    res.sample = {"family": fam, "requests": [(r["method"], r["version"]) for r in reqs],
                  "programs": [{k: p[k] for k in ("status", "kind", "cl", "fail")} for p in case["progs"]],
                  "fault": case["fault"], "responses": [(r.get("code"), r.get("framing"), r.get("complete")) for r in finals]}
    return res


def shrink(case):
    n = len(case["reqs"])
    for i in range(n):
        if n > 1:
            yield dict(case, reqs=case["reqs"][:i] + case["reqs"][i + 1:], progs=case["progs"][:i] + case["progs"][i + 1:])
    if case["fault"]:
        yield dict(case, fault=None)
    if case["seg"] != "max":
        yield dict(case, seg="max")
    for i, p in enumerate(case["progs"]):
        if len(p["chunks"]) > 1:
            for j in range(len(p["chunks"])):
                q = dict(p, chunks=p["chunks"][:j] + p["chunks"][j + 1:])
                if q.get("cl") is not None:
                    continue
                yield dict(case, progs=case["progs"][:i] + [q] + case["progs"][i + 1:])
        if p["read_body"] != "none":
            yield dict(case, progs=case["progs"][:i] + [dict(p, read_body="none")] + case["progs"][i + 1:])
