"""C05 — hostile or broken input is contained: error reply, no app call, worker lives (W2; fault enumeration)."""
from simkit.core import Result, EventLog, h64, b2j, j2b, bsafe, Wedged
from oracles import resp_ref
from worlds import httpgen, conn
from worlds.stream import observe, make_cfg as stream_cfg

ID = "C05"
LEVEL = "fault_enumeration"
DESIGN_REF = "DESIGN.md §4 C05"
QUICK_RUNS = 16000
THOROUGH_MIN_RUNS = 20000
BATCH = 50
CASE_WALL_S = 60.0
EXHAUSTIVE = True
RULE = ("case = a byte stream (grammar-generated hostile stream, tests/requests corpus file, mutated valid request or "
        "random bytes) x worker family (sync, gthread, async) x TCP or unix-socket peer x keep-alive setting x segmentation.  For every case: a "
        "fault-free pass counts the connection's I/O operations (recv/send/sendall/sendfile/shutdown), then ONE RUN PER "
        "(operation index, fault in {EOF, ECONNRESET, EPIPE, ENOTCONN}) - exhaustive over crash points of that workload - "
        "plus client half-close at seeded (thorough: all) offsets; after each run a second, valid connection goes to the "
        "same worker object.  evaluations counts cases; fault_fire_counts counts the enumerated runs.  distinct = "
        "distinct (stream, family, cfg) by hash; non-trivial = the fault-free pass performs >= 2 I/O operations.  A sixth of the cases form "
        "the family 'loop' (kernel world, isolated child): the real run loop of a sync / gthread / gevent / eventlet worker process receives 1-3 "
        "hostile connections (stream sent whole, cut or in two parts; then half-close, close or reset) followed by two valid clients: the process "
        "must survive, the valid clients must be served, the application may be called at most once per request the real parser yields, and a "
        "half-closed client sees at most one well-formed error page marked Connection: close and then end-of-file")
ASSUMPTIONS = [
    "'rejected' is gunicorn's own decision at head-parse time: the application call count must not exceed the number of "
    "requests the real RequestParser yields for the same bytes; errors raised while the application is already reading a "
    "streamed body are outside 'rejected' (only: nothing-or-one error page, close, worker lives)",
    "error pages are recognised by write_error's fixed shape (HTTP/1.1, Connection: close, Content-Type: text/html)",
    "a fault at operation k makes that and every later operation on the socket fail the same way",
]
COMPONENTS = {"real": ["SyncWorker.handle/handle_request", "ThreadWorker.handle/handle_request", "AsyncWorker.handle/handle_request",
                       "Worker.handle_error", "util.write_error/write_nonblock", "gunicorn.http.*", "gunicorn.http.wsgi",
                       "glogging.Logger"],
              "stub": ["peer + network (SimSock)", "application (generated)", "gthread poller/executor (W2 connection driver)",
                       "async timeout context", "WorkerTmp"],
              "real_in_family_loop": ["SyncWorker.run", "ThreadWorker.run + handler threads", "GeventWorker.run (gevent shim)",
                                      "EventletWorker.run (eventlet shim)", "WorkerTmp", "simulated kernel sockets"]}

FAULTS = ["EOF", "ECONNRESET", "EPIPE", "ENOTCONN"]
PROG = [{"status": "200 OK", "headers": [["Content-Type", "text/plain"], ["Content-Length", "2"]], "kind": "iter",
         "chunks": ["ok"], "read_body": "all", "head_aware": True},
        {"status": "200 OK", "headers": [["Content-Type", "text/plain"]], "kind": "iter", "chunks": ["o", "k"],
         "read_body": "all", "head_aware": True},
        {"status": "200 OK", "headers": [["Content-Length", "2"]], "kind": "write", "chunks": ["ok"], "read_body": "none", "head_aware": True},
        {"status": "200 OK", "headers": [["Content-Type", "text/plain"]], "kind": "iter", "chunks": ["ok"], "read_body": "late",
         "head_aware": True}]
FOLLOW = b"GET /follow-up HTTP/1.1\r\nHost: f\r\nConnection: close\r\n\r\n"

_CORPUS = None


def corpus():
    global _CORPUS
    if _CORPUS is None:
        from checks.c06 import corpus as c6
        _CORPUS = c6()
    return _CORPUS


def make_loop_case(index, rng, tier):
    cp = corpus()
    hostile = []
    t = 0.2
    for _ in range(rng.randrange(1, 4)):
        k = rng.randrange(4)
        if k == 0:
            data = rng.choice(cp)
        elif k == 1:
            m = bytearray(rng.choice(httpgen.CANONICAL))
            for _ in range(rng.randrange(1, 4)):
                i = rng.randrange(len(m))
                m[i:i + rng.randrange(0, 2)] = httpgen.odd(rng)
            data = bytes(m)
        elif k == 2:
            data = httpgen.rbytes(rng, rng.randrange(1, 120))
        else:
            data = b"".join(httpgen.gen_stream(rng, 2, hostile=True))
        data = data[:3000]
        cut = rng.randrange(0, len(data) + 1) if rng.randrange(3) == 0 else len(data)
        hostile.append({"data": b2j(data[:cut]), "end": rng.choice(["half-close", "half-close", "close", "reset"]), "t": round(t, 2),
                        "split": rng.randrange(1, max(2, cut)) if cut > 1 and rng.randrange(3) == 0 else None})
        t += rng.uniform(0.05, 1.0)
    return {"family": "loop", "kind": rng.choice(["sync", "gthread", "gevent", "eventlet"]), "keepalive": rng.choice([0, 1, 2]),
            "threads": rng.randrange(1, 3), "hostile": hostile, "cfg": rng.choice([{}, {}, {"limit_request_line": 64}, {"limit_request_fields": 3}]),
            "buggify": {"pyticks": rng.randrange(3) == 0, "short_recv": rng.randrange(3) == 0, "accept_econnaborted": rng.randrange(5) == 0},
            # a second listening address: the sync worker then runs its other accept loop (run_for_multiple)
            "binds": 2 if rng.randrange(4) == 0 else 1}


class _LoopMod:
    CASE_WALL_S = 60.0
    ISOLATE = True

    @staticmethod
    def run(case, choices):
        return run_loop(case, choices)


def run_loop(case, choices):
    """The real worker loop (all four classes) on the simulated kernel: hostile connections, then valid ones."""
    import signal as _signal
    from simkit.kernel import Sim
    from simkit import preempt
    from worlds import worker as W
    res = Result()
    # what the real parser makes of each hostile stream (before the kernel seams are installed: Config() outside a simulated process)
    pcfg = stream_cfg(**case["cfg"])
    parsed = [observe(pcfg, j2b(h["data"]), ())[0] for h in case["hostile"]]
    sim = Sim(choices, max_steps=200000, max_time=200.0)
    sim.buggify = dict(case["buggify"])
    if case["buggify"].get("pyticks"):
        preempt.enable()
        sim.py_ticks = True
    kind = case["kind"]
    cfgd = {"timeout": 30, "graceful_timeout": 2, "keepalive": case["keepalive"], "threads": case["threads"], "worker_connections": 10}
    cfgd.update(case["cfg"])
    w = W.WorkerWorld(sim, kind, cfgd, extra_addrs=[("127.0.0.1", 8001)] if case.get("binds", 1) == 2 else ())
    p = w.start_worker()
    hostile = []
    for i, h in enumerate(case["hostile"]):
        data = j2b(h["data"]).decode("latin-1")
        ops = [["wait", h["t"]], ["connect"]]
        if h.get("split") and h["split"] < len(data):
            ops += [["send", data[:h["split"]]], ["wait", 0.05], ["send", data[h["split"]:]]]
        elif data:
            ops.append(["send", data])
        if h["end"] == "half-close":
            ops += [["shutdown-wr"], ["await-eof", 8.0 + case["keepalive"]]]
        elif h["end"] == "close":
            ops.append(["close"])
        else:
            ops.append(["reset"])
        hostile.append(w.add_client("h%d" % i, ops, addr=w.addrs[i % 2] if len(w.addrs) > 1 else None))
    t_f = max(h["t"] for h in case["hostile"]) + 1.0
    finals = [w.add_client("f%d" % i, [["wait", round(t_f + 0.4 * i, 2)], ["connect"],
                                       ["send", "GET /a HTTP/1.1\r\nHost: f\r\nConnection: close\r\n\r\n"], ["recv", 20.0]],
                          addr=w.addrs[(i + 1) % 2] if len(w.addrs) > 1 else None) for i in range(2)]
    ctx = lambda: "family=loop kind=%s keepalive=%s threads=%s cfg=%r hostile=%r t=%.2f" % (
        kind, case["keepalive"], case["threads"], case["cfg"],
        [(bsafe(j2b(h["data"]), 80), h["end"], h["t"], h.get("split")) for h in case["hostile"]], sim.now)
    try:
        sim.run(until=lambda: sim.now > 60.0 or p.state != "running" or all(c.done for c in hostile + finals))
        if sim.crash:
            from simkit.core import HarnessError
            raise HarnessError(sim.crash)
        for name, tb in sim.escaped:
            res.violate("C05:loop:%s:exception-escaped" % kind, "an exception escaped %s: %s; %s" % (name, tb[-400:], ctx()))
        if p.state != "running":
            res.violate("C05:loop:%s:worker-died" % kind, "the worker process exited (wait status %r) while serving hostile connections; "
                        "boot_error=%r; %s" % (p.status, (w.boot_error or "")[-300:], ctx()))
        for c in finals:
            ok = c.responses and c.responses[0]["status"] == 200 and c.responses[0]["complete"]
            if c.stream is not None and c.stream.peer in sim.stolen:
                continue          # its connection was aborted in the accept queue (injected ECONNABORTED): nothing to serve
            if not ok and p.state == "running":
                res.violate("C05:loop:%s:follow-up-not-served" % kind, "after the hostile connections the valid client %s was not served: %r; "
                            "log=%r; %s" % (c.name, [(r["status"], r["complete"]) for r in c.responses], c.log[-4:], ctx()))
        allowed = len(finals)
        for c, h, obs in zip(hostile, case["hostile"], parsed):
            allowed += len(obs)
            if h["end"] != "half-close" or c.stream is None or c.stream.peer in sim.stolen:
                continue
            st = c.stream
            wire = bytes(st.rbuf)
            if not (st.eof or st.rst) and p.state == "running":
                res.violate("C05:loop:%s:not-closed" % kind, "client %s half-closed after its bytes; %.1f s later the server has still not closed "
                            "the connection; wire=%s; %s" % (c.name, 8.0 + case["keepalive"], bsafe(wire, 120), ctx()))
            reqs = [{"method": o.get("method", "GET")} for o in obs] + [{"method": "GET"}] * 2
            resps, probs, rest = resp_ref.parse(wire, reqs)
            errs = [r for r in resps if r["code"] is not None and _is_error_page(r)]
            if len(errs) > 1:
                res.violate("C05:loop:%s:two-error-pages" % kind, "client %s: more than one error response; wire=%s; %s" % (c.name, bsafe(wire, 200), ctx()))
            for i, r in enumerate(resps):
                if r["code"] is not None and _is_error_page(r):
                    hs = {n: v for n, v, _ in r["headers"]}
                    if hs.get(b"connection", b"").lower() != b"close":
                        res.violate("C05:loop:%s:error-page:not-connection-close" % kind, "client %s; wire=%s; %s" % (c.name, bsafe(wire, 200), ctx()))
                    if i != len(resps) - 1 or rest:
                        res.violate("C05:loop:%s:bytes-after-error-page" % kind, "client %s; wire=%s; %s" % (c.name, bsafe(wire, 200), ctx()))
                    if r["framing"] != "length" or r["complete"] is not True:
                        res.violate("C05:loop:%s:error-page:bad-length" % kind, "client %s; wire=%s; %s" % (c.name, bsafe(wire, 200), ctx()))
        if w.apphost.app_calls > allowed:
            res.violate("C05:loop:%s:app-called-for-rejected" % kind, "the application was called %d times; the hostile streams parse into %d "
                        "requests in all, plus %d valid clients; %s" % (w.apphost.app_calls, allowed - len(finals), len(finals), ctx()))
        res.nontrivial = True
        res.sim_s = sim.now
        res.faults.update(sim.faults)
        for h in case["hostile"]:
            res.faults["client_" + h["end"]] += 1
        res.probes.update(sim.probes)
        res.probes["real_loop:" + kind] += 1
        res.states.add(h64("loop", kind, len(case["hostile"]), w.apphost.app_calls, p.state))
        res.from_log(sim.log)
        res.shape = h64("loop", kind, case["hostile"], case["keepalive"], case["threads"])
        res.sample = {"family": "loop", "kind": kind, "hostile": [(bsafe(j2b(h["data"]), 60), h["end"]) for h in case["hostile"]],
                      "app_calls": w.apphost.app_calls, "finals": [[(r["status"], r["complete"]) for r in c.responses] for c in finals]}
    finally:
        sim.shutdown()
    return res


def make_case(index, rng, tier):
    if index % 6 == 5:
        return make_loop_case(index, rng, tier)
    cp = corpus()
    k = index % 5
    if index < 3 * len(cp):
        msgs = [cp[index % len(cp)]]
    elif k == 0:
        msgs = [httpgen.rbytes(rng, rng.randrange(1, 200))]
    elif k == 1:
        m = bytearray(rng.choice(httpgen.CANONICAL))
        for _ in range(rng.randrange(1, 4)):
            i = rng.randrange(len(m))
            m[i:i + rng.randrange(0, 2)] = httpgen.odd(rng)
        msgs = [bytes(m)]
    else:
        msgs = httpgen.gen_stream(rng, 3, hostile=True)
    family = conn.FAMILIES[index % 3] if index < 3 * len(cp) else rng.choice(conn.FAMILIES)
    total = sum(len(m) for m in msgs)
    ntr = 8 if tier == "quick" else min(total, 400)
    truncs = sorted({rng.randrange(0, total + 1) for _ in range(ntr)}) if total else []
    if tier != "quick" and total <= 400:
        truncs = list(range(total + 1))
    return {"msgs": [b2j(m) for m in msgs], "family": family, "keepalive": rng.choice([0, 2, 2]),
            "prog": rng.randrange(len(PROG)), "seg": rng.choice(["max", "k", "small"]), "truncs": truncs,
            "cfg": rng.choice([{}, {}, {"limit_request_line": 64}, {"limit_request_fields": 3}]),
            "unix": rng.randrange(4) == 0, "unix_peer": rng.choice(["", "", "c", "/tmp/client.sock", "ab"]),
            # the peer does not disconnect at once when its (possibly truncated) bytes are used up: it stays silent for a while first
            "silence": rng.choice([None, None, 0.5, 3.0, 10.0])}


def _cuts(seg, n, choices):
    if seg == "max" or n < 2:
        return ()
    if seg == "small":
        out, p = [], 0
        while p < n:
            p += 1 + choices.choose(50)
            out.append(p)
        return tuple(c for c in out if c < n)
    return tuple(sorted({1 + choices.choose(n - 1) for _ in range(1 + choices.choose(5))}))


_is_error_page = resp_ref.is_error_page


def one_run(res, log, case, data, cuts, fault_at, fault_kind, yielded, label):
    """Serve `data` on one connection (with an optional fault), then a follow-up connection; apply the oracle."""
    conn.reset_run()
    cfg = conn.make_cfg(keepalive=case["keepalive"], **case["cfg"])
    state = conn.AppState()
    worker = conn.make_worker(case["family"], cfg, conn.make_app([PROG[case["prog"]]], state))
    unix = case.get("unix")
    # (a unix-socket client is usually unbound - peer address '' - but may have bound its own end to a path, even a one-character one)
    sock = conn.SimSock(data, cuts, fault_at=fault_at, fault_kind=fault_kind, silence=case.get("silence"),
                        **({"peer": case.get("unix_peer", ""), "name": "/run/g.sock"} if unix else {}))
    esc = conn.serve(worker, case["family"], sock)
    fam = case["family"]
    ctx = lambda: "%s family=%s keepalive=%s cfg=%r stream=%s wire=%s" % (
        label, fam, case["keepalive"], case["cfg"], bsafe(data, 200), bsafe(bytes(sock.wire), 160))
    log.add(fam, "served", (label, len(sock.ops), len(sock.wire), state.calls, sock.closed))
    if isinstance(esc, Wedged):
        res.violate("C05:%s:wedged" % fam, "handle() does not terminate on this input (%s): the connection is never closed and the worker "
                    "serves nothing else; %s" % (esc, ctx()))
        return sock
    if esc is not None:
        res.violate("C05:%s:exception-escaped:%s" % (fam, type(esc).__name__),
                    "handle() let %r escape into the run loop; %s" % (esc, ctx()))
    if sock.closed < 1:
        res.violate("C05:%s:not-closed" % fam, "the server did not close the connection; %s" % ctx())
    if state.calls > yielded:
        res.violate("C05:%s:app-called-for-rejected" % fam,
                    "application called %d times but only %d request(s) parse on this stream; %s" % (state.calls, yielded, ctx()))
    # wire: normal responses for served requests, then at most one error page, then nothing
    wire = bytes(sock.wire)
    reqs = [{"method": e.get("REQUEST_METHOD", "GET")} for e in state.environs] + [{"method": "GET"}] * 2
    resps, probs, rest = resp_ref.parse(wire, reqs)
    faulted = sock.fault_fired is not None
    errs = [r for r in resps if r["code"] is not None and _is_error_page(r)]
    if len(errs) > 1:
        res.violate("C05:%s:two-error-pages" % fam, "more than one error response on the wire; %s" % ctx())
    for i, r in enumerate(resps):
        last = i == len(resps) - 1
        if r.get("partial_head") or r["code"] is None or r["complete"] is False:
            if not (faulted and last) and not r.get("interim"):
                if r["code"] is None and not r.get("partial_head"):
                    res.violate("C05:%s:wire:bad-status-line" % fam, "malformed response; %s" % ctx())
                elif not faulted and not state.failed:
                    # (an application that fails - e.g. on a broken request body - after its head was sent leaves a
                    #  prefix of its response followed by close: that is the contained outcome)
                    res.violate("C05:%s:wire:incomplete-response" % fam, "incomplete response without any fault; %s" % ctx())
            continue
        if _is_error_page(r):
            hs = {n: v for n, v, _ in r["headers"]}
            if hs.get(b"connection", b"").lower() != b"close":
                res.violate("C05:%s:error-page:not-connection-close" % fam, "error page without Connection: close; %s" % ctx())
            if r["framing"] != "length" or r["complete"] is not True:
                res.violate("C05:%s:error-page:bad-length" % fam, "error page Content-Length does not match its body; %s" % ctx())
            if not last or rest:
                res.violate("C05:%s:bytes-after-error-page" % fam, "something follows the error page; %s" % ctx())
    for code, detail in probs:
        if faulted:
            continue
        res.violate("C05:%s:wire:%s" % (fam, code), "%s %s; %s" % (code, detail, ctx()))
    if rest and not faulted:
        res.violate("C05:%s:wire:trailing-bytes" % fam, "unparsed bytes after the last response: %s; %s" % (bsafe(rest, 60), ctx()))
    # follow-up connection on the same worker object
    before = state.calls
    s2 = conn.SimSock(FOLLOW, (), **({"peer": "", "name": "/run/g.sock"} if unix else {}))
    esc2 = conn.serve(worker, fam, s2)
    r2, p2, rest2 = resp_ref.parse(bytes(s2.wire), [{"method": "GET"}])
    ok = (esc2 is None and state.calls == before + 1 and len(r2) == 1 and r2[0]["code"] == 200
          and r2[0]["body"] == b"ok" and r2[0]["complete"] is not False and not p2 and not rest2 and s2.closed >= 1 and worker.alive)
    if not ok:
        res.violate("C05:%s:follow-up-not-served" % fam,
                    "after this connection the worker did not serve a valid one correctly (esc=%r calls=%d wire=%s); %s"
                    % (esc2, state.calls - before, bsafe(bytes(s2.wire), 120), ctx()))
    return sock


def run(case, choices):
    if case.get("family") == "loop":
        # a kernel-world run inside this connection-world check: isolated in a forked child like every W3/W4 run
        from simkit import runner
        from simkit.core import HarnessError
        r, err, chlog = runner.run_isolated(_LoopMod, case, choices)
        choices.log[:] = chlog
        if r is None:
            raise HarnessError(err or "isolated loop run failed")
        return r
    res = Result()
    log = EventLog()
    data = b"".join(j2b(m) for m in case["msgs"])
    cuts = _cuts(case["seg"], len(data), choices)
    pcfg = stream_cfg(**case["cfg"])

    def yielded_for(d):
        obs, term, _ = observe(pcfg, d, ())
        return len(obs)

    y = yielded_for(data)
    base = one_run(res, log, case, data, cuts, None, "EOF", y, "fault-free")
    nops = len(base.ops)
    res.faults["fault_free_pass"] += 1
    # client half-close after t bytes (truncation)
    for t in case["truncs"]:
        if res.violations:
            break
        d = data[:t]
        one_run(res, log, case, d, tuple(c for c in cuts if c < t), None, "EOF", yielded_for(d), "truncated@%d" % t)
        res.faults["truncation"] += 1
    # the peer disappears at I/O operation k, in every way
    for k in range(nops):
        for kind in FAULTS:
            if res.violations:
                break
            s = one_run(res, log, case, data, cuts, k, kind, y, "fault@op%d/%s:%s" % (k, base.ops[k][0], kind))
            res.faults["%s@%s" % (kind, base.ops[k][0])] += 1
            if s.fault_fired:
                res.probes["reset_during_" + s.fault_fired[1]] += 1
    res.nontrivial = nops >= 2
    res.from_log(log)
    res.shape = h64(data, case["family"], case["keepalive"], sorted(case["cfg"].items()))
    res.states.add(h64(case["family"], nops, y, bool(base.wire)))
    res.sample = {"stream": bsafe(data, 120), "family": case["family"], "keepalive": case["keepalive"], "io_ops": nops,
                  "ops": [o[0] for o in base.ops][:12], "requests_parsed": y, "enumerated_fault_runs": nops * len(FAULTS),
                  "truncations": len(case["truncs"])}
    return res


def shrink(case):
    if case.get("family") == "loop":
        hs = case["hostile"]
        for i in range(len(hs)):
            if len(hs) > 1:
                yield dict(case, hostile=hs[:i] + hs[i + 1:])
        for i, h in enumerate(hs):
            if h.get("split"):
                yield dict(case, hostile=hs[:i] + [dict(h, split=None)] + hs[i + 1:])
        for k, v in case["buggify"].items():
            if v:
                yield dict(case, buggify=dict(case["buggify"], **{k: False}))
        return
    msgs = [j2b(m) for m in case["msgs"]]
    for cand in httpgen.shrink_stream(msgs):
        yield dict(case, msgs=[b2j(m) for m in cand])
    if len(case["truncs"]) > 1:
        for t in case["truncs"]:
            yield dict(case, truncs=[t])
        yield dict(case, truncs=[])
    if case["cfg"]:
        yield dict(case, cfg={})
    if case["seg"] != "max":
        yield dict(case, seg="max")
