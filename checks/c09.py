"""C09 — application-supplied status and headers cannot split or forge a response (W2; programs)."""
from simkit.core import Result, EventLog, h64, bsafe
from oracles import resp_ref
from worlds import conn

ID = "C09"
LEVEL = "exploration"
DESIGN_REF = "DESIGN.md §4 C09"
QUICK_RUNS = 300000
THOROUGH_MIN_RUNS = 300000
BATCH = 2000
CASE_WALL_S = 20.0
RULE = ("case = one request x a generated program whose start_response arguments carry one byte class (CR, LF, CRLF+line, "
        "NUL, VT, DEL, obs-text, non-latin-1, SP/HTAB, colon, empty) at a seeded position of the status, a header name or "
        "a header value; hop-by-hop names; optional second start_response call (with/without exc_info, before/after the "
        "first write) x worker family x HTTP version.  The raw head at the client is split on CRLF and compared line by "
        "line with the expected head; text with CR/LF/NUL or a non-token name must leave zero bytes of that response on "
        "the wire (only a server-generated 500).  distinct = distinct programs by hash; non-trivial = the program "
        "reaches start_response")
ASSUMPTIONS = [
    "gunicorn refusing more than CR/LF/NUL/non-token (other CTLs, DEL, non-latin-1) is not a violation (one-sided)",
    "after a second start_response(exc_info) before any byte was sent, either the replaced header set (PEP 3333) or the "
    "accumulated one (what gunicorn does) is accepted: the property speaks of accepted headers, not of PEP 3333 replacement",
    "the websocket pair 'Upgrade: websocket' / 'Connection: upgrade' is gunicorn's documented pass-through and exempt "
    "from the hop-by-hop filter",
    "input/program-dominated: the simulated connection contributes the order of wire effects (refusal precedes the first byte)",
]
COMPONENTS = {"real": ["gunicorn.http.wsgi.Response.start_response/process_headers/default_headers/send_headers",
                       "util.is_hoppish", "worker handle()/handle_request()/handle_error of all three families"],
              "stub": ["peer + network (SimSock)", "application (generated program)"]}

CLASSES = {"CR": "\r", "LF": "\n", "CRLF": "\r\nX-Injected: 1", "NUL": "\0", "VT": "\x0b", "DEL": "\x7f",
           "ESC": "\x1b", "obs": "\xe9", "uni": "Ā", "SP": " ", "HTAB": "\t", "colon": ":", "LFLF": "\n\n", "COLONSP": ": x", "COLONSPHOP": ": chunked"}
HOP = ["Connection", "Keep-Alive", "Proxy-Authenticate", "Proxy-Authorization", "TE", "Trailers", "Transfer-Encoding",
       "Upgrade", "Server", "Date", "connection", "transfer-encoding"]
DANGEROUS = ("\r", "\n", "\0")
TOKEN = set("!#$%&'*+-.^_`|~0123456789abcdefghijklmnopqrstuvwxyzABCDEFGHIJKLMNOPQRSTUVWXYZ")


def inject(rng, s, cls):
    o = CLASSES[cls]
    k = rng.randrange(3)
    if k == 0 or not s:
        return o + s
    if k == 1:
        return s + o
    i = rng.randrange(1, len(s)) if len(s) > 1 else 1
    return s[:i] + o + s[i:]


def make_case(index, rng, tier):
    status = rng.choice(["200 OK", "404 Not Found", "201 Created", "500 X", "200", "302 Moved Temporarily"])
    headers = [["Content-Type", "text/plain"]]
    for _ in range(rng.randrange(0, 3)):
        headers.append([rng.choice(["X-A", "X-B", "Set-Cookie", "Location", "X-C"]), rng.choice(["1", "a=b; Path=/", "/x", "v w", ""])])
    field = rng.choice(["status", "name", "value", "none", "hop", "value"])
    cls = rng.choice(sorted(CLASSES))
    if field == "status":
        status = inject(rng, status, cls)
    elif field == "name":
        i = rng.randrange(len(headers))
        headers[i][0] = inject(rng, headers[i][0], cls) if rng.randrange(6) else ""
        if rng.randrange(8) == 0:
            headers[i][0] = rng.choice(["Transfer-Encoding: chunked", "Connection: close, X", "X-A: b", "Content-Length: 0\r\nX"])
    elif field == "value":
        i = rng.randrange(len(headers))
        headers[i][1] = inject(rng, headers[i][1], cls)
    elif field == "hop":
        # one to three hop-by-hop fields: the filter keeps state between them (Connection: upgrade / Upgrade: websocket)
        for _ in range(rng.choice([1, 1, 2, 3])):
            n = rng.choice(HOP)
            v = rng.choice(["close", "keep-alive", "chunked", "websocket", "upgrade", "x", "timeout=5", "h2c", "Upgrade", "WebSocket"])
            headers.insert(rng.randrange(len(headers) + 1), [n, v])
    body = rng.choice([["hello"], [], ["a", "b"], ["x" * 300]])
    if rng.randrange(3) == 0:
        headers.append(["Content-Length", str(sum(len(c) for c in body))])
    prog = {"status": status, "headers": headers, "kind": rng.choice(["iter", "write", "list"]), "chunks": body,
            "read_body": "none", "head_aware": True, "fail": None}
    if rng.randrange(5) == 0:
        s2 = rng.choice(["500 Late", "200 Again"])
        h2 = [["X-Second", "2"]]
        if rng.randrange(3) == 0:
            h2.insert(rng.randrange(2), [rng.choice(HOP), rng.choice(["upgrade", "websocket", "x", "chunked", "close"])])
        if rng.randrange(2):
            s2 = inject(rng, s2, cls) if rng.randrange(2) else s2
            if rng.randrange(2):
                h2[0][1] = inject(rng, "2", cls)
        prog["second_sr"] = {"status": s2, "headers": h2, "exc_info": rng.randrange(3) != 0,
                             "when": rng.choice(["before_write", "after_write"])}
    if prog["kind"] != "write" and rng.randrange(4) == 0:
        prog["catch_refusal"] = True          # the refusal of the first call is caught and the body returned all the same
    if prog.get("second_sr") and rng.randrange(3) == 0:
        prog["second_sr"]["swallow"] = True   # ... likewise for what a later call raises
    return {"prog": prog, "family": rng.choice(conn.FAMILIES), "version": rng.choice(["1.1", "1.1", "1.0"]),
            "method": rng.choice(["GET", "GET", "HEAD", "POST"]), "field": field, "cls": cls}


def _bad(s):
    return any(c in s for c in DANGEROUS)


def _badname(n):
    return n == "" or any(c not in TOKEN for c in n)


def _applines(headers):
    """Lines the server may emit for an accepted header list (hop-by-hop filtered, value OWS-trimmed)."""
    out = []
    for n, v in headers:
        v2 = v.strip(" \t")
        ln = n.lower().strip()
        if ln in ("connection", "keep-alive", "proxy-authenticate", "proxy-authorization", "te", "trailers",
                  "transfer-encoding", "upgrade", "server", "date"):
            if ln == "upgrade" and v2.lower() == "websocket":
                out.append("%s: %s" % (n, v2))
            continue
        out.append("%s: %s" % (n, v2))
    return out


def run(case, choices):
    res = Result()
    log = EventLog()
    conn.reset_run()
    fam = case["family"]
    prog = case["prog"]
    cfg = conn.make_cfg(keepalive=2)
    state = conn.AppState()
    worker = conn.make_worker(fam, cfg, conn.make_app([prog], state))
    body = "abc" if case["method"] == "POST" else ""
    req = "%s /c9 HTTP/%s\r\nHost: h\r\n%s\r\n%s" % (case["method"], case["version"],
                                                    ("Content-Length: %d\r\n" % len(body)) if body else "", body)
    sock = conn.SimSock(req.encode("latin-1"), ())
    esc = conn.serve(worker, fam, sock)
    wire = bytes(sock.wire)
    log.add(fam, "served", (len(wire), state.calls, sock.closed, tuple(state.sr_errors)))
    sec = prog.get("second_sr")
    texts = [("status", prog["status"])] + [("name", n) for n, _ in prog["headers"]] + [("value", v) for _, v in prog["headers"]]
    first_bad = [f for f, t in texts if _bad(t)] + ["name" for n, _ in prog["headers"] if _badname(n)]
    ctx = lambda: "family=%s HTTP/%s %s status=%r headers=%r second=%r sr_errors=%r wire=%s" % (
        fam, case["version"], case["method"], prog["status"], prog["headers"], sec, state.sr_errors, bsafe(wire, 500))
    cls = case["cls"]
    if esc is not None:
        res.violate("C09:%s:exception-escaped" % fam, "handle() let %r escape; %s" % (esc, ctx()))
    resps, probs, rest = resp_ref.parse(wire, [{"method": case["method"]}, {"method": "GET"}])
    finals = [r for r in resps if not r.get("interim")]
    apps = [r for r in finals if r.get("code") is not None and not resp_ref.is_error_page(r)]
    lenient = bool(state.sr_errors) and (prog.get("catch_refusal") or (sec and sec.get("swallow")))
    if lenient:
        # the application caught a refusal and went on: what it then gets is its own affair (gunicorn keeps whatever the refused call
        # had already replaced), but nothing of the text that was refused may be on the wire, and no head line may carry a control character
        res.probes["refusal_swallowed"] += 1
        for r in finals:
            if r.get("start") is None:
                continue
            head = wire[r["start"]:max(r["start"], wire.find(b"\r\n\r\n", r["start"]))]
            for ln in head.split(b"\r\n"):
                if _bad(ln.decode("latin-1")) or b"X-Injected" in ln:
                    res.violate("C09:swallowed-refusal:%s" % cls, "after a refused start_response call that the application caught, the head "
                                "on the wire carries refused text: %s; %s" % (bsafe(ln, 80), ctx()))
                    break
    elif first_bad:
        res.probes["refusal_expected:" + first_bad[0]] += 1
        # nothing of the refused response may be on the wire: only (at most) one server-generated error page
        if apps or any(r.get("code") is None and not r.get("partial_head") for r in finals) or \
                (wire and not (len(finals) == 1 and resp_ref.is_error_page(finals[0]) and finals[0]["complete"] is True and not rest)):
            res.violate("C09:%s:%s" % (first_bad[0], cls),
                        "start_response was given %s text containing %s, yet bytes of that response are on the wire "
                        "(expected nothing but a server-generated 500); %s" % (first_bad[0], cls, ctx()))
    elif apps:
        r = apps[0]
        head = wire[r["start"]:wire.find(b"\r\n\r\n", r["start"])]
        lines = head.split(b"\r\n")
        for ln in lines:
            if b"\r" in ln or b"\n" in ln or b"\0" in ln:
                res.violate("C09:ctl-in-head-line:%s" % cls, "a head line contains CR/LF/NUL: %s; %s" % (bsafe(ln, 80), ctx()))
        # which status / header set is in effect
        cands = [(prog["status"], prog["headers"])]
        if sec and sec["exc_info"] and sec["when"] == "before_write" and not _bad(sec["status"]) \
                and not any(_bad(v) or _badname(n) or _bad(n) for n, v in sec["headers"]):
            cands = [(sec["status"], sec["headers"]), (sec["status"], prog["headers"] + sec["headers"])]
        ok = False
        why = ""
        for st, hs in cands:
            want0 = ("HTTP/%s %s" % (case["version"], st)).encode("latin-1", "replace")
            want_app = [l.encode("latin-1", "replace") for l in _applines(hs)]
            srv = lines[1:4]
            rest_lines = lines[4:]
            if rest_lines[:1] == [b"Transfer-Encoding: chunked"]:
                rest_lines = rest_lines[1:]
            if lines[0] == want0 and len(srv) == 3 and srv[0].startswith(b"Server: ") and srv[1].startswith(b"Date: ") \
                    and srv[2] in (b"Connection: close", b"Connection: keep-alive", b"Connection: upgrade") \
                    and rest_lines == want_app:
                ok = True
                break
            why = "expected status line %r + 3 server lines [+ TE] + %r, got %r" % (want0, want_app, lines)
        if not ok:
            f = "status" if lines[0] != want0 else "headers"
            hop = [l for l in lines[4:] if l.split(b":")[0].lower().strip() in
                   (b"connection", b"keep-alive", b"proxy-authenticate", b"proxy-authorization", b"te", b"trailers",
                    b"server", b"date")]
            if case["field"] == "hop" and hop:
                f = "hop-by-hop-forwarded"
            res.violate("C09:%s:%s" % (f, cls if case["field"] != "hop" else "hop"),
                        "the head on the wire is not the server's lines plus one line per accepted header: %s; %s" % (why[:600], ctx()))
    # a late/second start_response carrying dangerous text must never surface on the wire either
    if sec and (_bad(sec["status"]) or any(_bad(v) or _bad(n) for n, v in sec["headers"])):
        inj = b"X-Injected"
        heads = b"\n".join(wire[r["start"]:max(r["start"], wire.find(b"\r\n\r\n", r["start"]))] for r in finals if r.get("start") is not None)
        if inj in heads and "X-Injected" not in prog["status"] and not any("X-Injected" in v or "X-Injected" in n for n, v in prog["headers"]):
            res.violate("C09:second-call:%s" % cls, "text from a refused second start_response call is on the wire; %s" % ctx())
    res.nontrivial = state.calls > 0
    res.from_log(log)
    res.shape = h64(prog, fam, case["version"], case["method"])
    res.states.add(h64(fam, case["field"], cls, bool(first_bad), len(finals), bool(apps), bool(sec)))
    res.sample = {"family": fam, "status": prog["status"], "headers": prog["headers"], "second": sec,
                  "field": case["field"], "class": cls, "wire_head": bsafe(wire, 160)}
    return res


def shrink(case):
    p = case["prog"]
    for i in range(len(p["headers"])):
        yield dict(case, prog=dict(p, headers=p["headers"][:i] + p["headers"][i + 1:]))
    if p.get("second_sr"):
        q = dict(p)
        del q["second_sr"]
        yield dict(case, prog=q)
    if p["chunks"]:
        yield dict(case, prog=dict(p, chunks=[]))
    if case["method"] != "GET":
        yield dict(case, method="GET")
