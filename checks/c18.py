"""C18 — max_requests recycles workers without losing requests (W3 worker half; W4 + real workers)."""
import signal

from simkit.core import Result, h64
from simkit.kernel import Sim, current_task
from simkit import preempt
from worlds import master, worker as W, conn as C
from oracles import resp_ref

ID = "C18"
LEVEL = "exploration"
DESIGN_REF = "DESIGN.md §4 C18"
QUICK_RUNS = 16000
THOROUGH_MIN_RUNS = 40000
BATCH = 50
CASE_WALL_S = 60.0
ISOLATE = True      # every run in a forked child: no interpreter state leaks from one simulated server to the next
RULE = ("three case families.  conn (W2): the real per-connection code of all three families (sync, gthread, async keep-alive loop) serving a sequence of keep-alive connections on one worker object: exact counting rule.  worker (W3): the real SyncWorker / ThreadWorker with max_requests 0-4 and jitter 0-2 (the jitter draw "
        "comes from the seed; the harness reads the worker's drawn limit) under sequential or concurrent scripted clients, fresh and "
        "keep-alive connections, fast and slow applications.  full (W4): the real Arbiter with the real workers under continuous "
        "client load.  Oracles: the worker handles at most limit + (connections open when the limit is reached) requests and accepts "
        "no connection after its loop has seen the limit; the limit-reaching request and those in flight are answered in full; run() "
        "returns; the master reaps and replaces it and the listener stays open (no refusal); with max_requests=0 no worker ever "
        "exits.  distinct = distinct event-trace shapes; non-trivial = some worker reached its limit")
ASSUMPTIONS = [
    "'dropped' is judged for the first request on a fresh connection that the worker accepted; a request sent on an idle keep-alive "
    "connection that the server closes at the same time is the inherent HTTP/1.1 keep-alive race and is not counted",
    "for the threaded worker one more accept may happen in the main-loop iteration that is in progress when a handler thread "
    "reaches the limit; what happens to that connection is judged (and separately keyed)",
    "the real GeventWorker.run() executes on a shim of the gevent primitives (its acceptor keeps accepting until the 1 s heartbeat loop notices the limit: recorded as a known finding, not allowed for)",
    "the real EventletWorker.run(), _eventlet_serve and _eventlet_stop execute on a shim of the eventlet primitives they use (simkit/eventlet_shim.py: spawn/GreenThread kill-wait-link, GreenPool, GreenSocket accept, sleep, Timeout, StopServe); real eventlet hub scheduling order is not modelled beyond 'one green thread runs until it blocks'",
]
COMPONENTS = {"real": ["Worker.__init__ (limit + jitter)", "SyncWorker.run/handle_request", "ThreadWorker.run/handle_request/finish_request",
                       "Arbiter.reap_workers/manage_workers/spawn_worker (family full)"],
              "stub": ["kernel", "selector/executor/lock", "clients", "parent (family worker)"],
              "not_covered": ["real gevent/eventlet hubs"]}


def make_conn_case(index, rng, tier):
    fam = rng.choice(C.FAMILIES)
    conns = [[rng.choice(["/a", "/b", "/c"]) for _ in range(rng.randrange(1, 6))] for _ in range(rng.randrange(1, 5))]
    return {"family": "conn", "kind": fam, "max_requests": rng.choice([0, 1, 2, 3, 4]), "jitter": rng.choice([0, 0, 1, 2]),
            "jitter_draw": rng.randrange(0, 3), "conns": conns, "keepalive": rng.choice([0, 2, 2, 5])}


def run_conn(case, choices):
    """The exact counting rule on the real per-connection code of all three families (W2): connections that are open when
    the limit is reached may each serve at most one more request, and every response after the limit says Connection: close."""
    from simkit.core import EventLog
    res = Result()
    log = EventLog()
    C.reset_run()
    kind = case["kind"]
    cfg = C.make_cfg(keepalive=case["keepalive"], max_requests=case["max_requests"], max_requests_jitter=case["jitter"])
    state = C.AppState()
    prog = [{"status": "200 OK", "headers": [["Content-Length", "2"]], "kind": "list", "chunks": ["ok"], "read_body": "none"}]
    worker = C.make_worker(kind, cfg, C.make_app(prog, state), jitter_draw=case["jitter_draw"])
    limit = worker.max_requests
    ctx = lambda: "family=conn kind=%s max_requests=%d jitter=%d drawn_limit=%r keepalive=%s connections=%r" % (
        kind, case["max_requests"], case["jitter"], limit, case["keepalive"], case["conns"])
    if case["max_requests"] > 0 and not (case["max_requests"] <= limit <= case["max_requests"] + case["jitter"]):
        res.violate("C18:conn:%s:limit-out-of-range" % kind, "request limit %r for max_requests=%d jitter=%d; %s" % (limit, case["max_requests"], case["jitter"], ctx()))
    total = 0
    limit_hit_conn = None
    for ci, paths in enumerate(case["conns"]):
        data = "".join("GET %s HTTP/1.1\r\nHost: h\r\n\r\n" % pth for pth in paths).encode()
        before = state.calls
        was_over = case["max_requests"] > 0 and before >= limit
        sock = C.SimSock(data, ())
        esc = C.serve(worker, kind, sock)
        served = state.calls - before
        log.add(kind, "conn", (ci, served, worker.alive))
        if esc is not None:
            res.violate("C18:conn:%s:exception-escaped" % kind, "%r escaped; %s" % (esc, ctx()))
        resps, probs, rest = resp_ref.parse(bytes(sock.wire), [{"method": "GET"}] * (len(paths) + 1))
        for j, r in enumerate(resps):
            n_global = before + j + 1
            says = resp_ref.header(r, b"connection")
            says = says[0].lower() if says else b""
            if case["max_requests"] > 0 and n_global >= limit and says != b"close" and r.get("code") == 200:
                res.violate("C18:conn:%s:keepalive-after-limit" % kind,
                            "connection %d response %d is request #%d of the worker (limit %d) and still announces %r: the worker keeps "
                            "accepting work on this connection after its limit; %s" % (ci, j, n_global, limit, says, ctx()))
        if was_over and served > 1:
            res.violate("C18:conn:%s:served-after-limit" % kind,
                        "the worker had reached its limit (%d) before connection %d, which was then served %d requests (at most the one in "
                        "flight may be answered); %s" % (limit, ci, served, ctx()))
        if case["max_requests"] > 0 and before < limit <= state.calls:
            limit_hit_conn = ci
            res.probes["limit_reached"] += 1
            if state.calls > limit:
                res.violate("C18:conn:%s:served-past-limit-on-connection" % kind,
                            "connection %d reached the limit at request #%d but %d requests were served on it afterwards; %s"
                            % (ci, limit, state.calls - limit, ctx()))
        if case["max_requests"] > 0 and state.calls >= limit and worker.alive:
            res.violate("C18:conn:%s:alive-after-limit" % kind, "the worker handled %d requests (limit %d) and still has alive=True; %s"
                        % (state.calls, limit, ctx()))
    if case["max_requests"] == 0 and not worker.alive:
        res.violate("C18:conn:%s:recycled-without-limit" % kind, "max_requests=0 but alive=False after %d requests; %s" % (state.calls, ctx()))
    res.nontrivial = limit_hit_conn is not None
    res.from_log(log)
    res.shape = h64(kind, case["max_requests"], case["jitter"], case["jitter_draw"], case["conns"], case["keepalive"])
    res.states.add(h64("conn", kind, case["max_requests"], limit if case["max_requests"] else 0, state.calls, worker.alive))
    res.sample = {"family": "conn", "kind": kind, "max_requests": case["max_requests"], "drawn_limit": limit if case["max_requests"] else None,
                  "connections": case["conns"], "handled": state.calls}
    return res


def make_case(index, rng, tier):
    if index % 4 == 3:
        return make_conn_case(index, rng, tier)
    fam = "full" if index % 3 == 2 else "worker"
    kind = rng.choice(["sync", "gthread", "gevent", "eventlet"])
    mr = rng.choice([0, 1, 2, 2, 3, 4])
    clients = []
    t = 0.2
    n = rng.randrange(2, 9)
    concurrent = rng.randrange(2) == 0
    for i in range(n):
        nreq = rng.choice([1, 1, 1, 2, 3]) if kind in ("gthread", "gevent", "eventlet") else 1
        paths = [rng.choice(["/a", "/a", "/sleep/0.3", "/sleep/1.0", "/b"]) for _ in range(nreq)]
        clients.append({"t": round(t, 2), "paths": paths, "gap": round(rng.uniform(0.05, 0.6), 2)})
        t += rng.uniform(0.0, 0.15) if concurrent else rng.uniform(0.3, 1.2)
    short_timeout = False
    if fam == "full" and kind != "sync" and rng.randrange(3) == 0:
        # a worker timeout shorter than one of the requests (legitimate for the concurrent worker classes: the heartbeat does not depend on
        # request handling) and shorter than the graceful timeout: the recycling worker must stay alive in the master's eyes while it drains
        short_timeout = True
        rng.choice(clients)["paths"][0] = "/sleep/3.0"
    return {"family": fam, "kind": kind, "short_timeout": short_timeout, "wconn": rng.choice([2, 3, 20]) if kind in ("gevent", "eventlet") else 20, "max_requests": mr, "jitter": rng.choice([0, 0, 1, 2]), "clients": clients,
            "threads": rng.randrange(1, 4), "keepalive": rng.choice([0, 2, 2]), "workers": rng.randrange(1, 3), "binds": rng.choice([1, 1, 2]),
            "buggify": {"pyticks": rng.randrange(3) == 0, "short_recv": rng.randrange(4) == 0, "fork_child_first": rng.randrange(2) == 0,
                        "accept_econnaborted": fam == "worker" and rng.randrange(5) == 0}, "preempt": rng.randrange(0, 4)}


def client_script(c):
    ops = [["wait", c["t"]], ["connect"]]
    for j, pth in enumerate(c["paths"]):
        if j:
            ops.append(["wait", c["gap"]])
        ops.append(["send", "GET %s HTTP/1.1\r\nHost: h\r\n\r\n" % pth])
        ops.append(["recv", 30.0])
    ops.append(["await-eof", 8.0])
    return ops


def run(case, choices):
    if case["family"] == "conn":
        return run_conn(case, choices)
    return run_worker(case, choices) if case["family"] == "worker" else run_full(case, choices)


def run_worker(case, choices):
    res = Result()
    sim = Sim(choices, max_steps=200000, max_time=200.0)
    sim.buggify = dict(case["buggify"])
    if case["buggify"].get("pyticks"):
        preempt.enable()
        sim.py_ticks = True          # eval-breaker points inside gunicorn's Python code are delivery / pre-emption points too
    kind = case["kind"]
    w = W.WorkerWorld(sim, kind, {"timeout": 30, "graceful_timeout": 5, "keepalive": case["keepalive"], "threads": case["threads"],
                                  "worker_connections": case.get("wconn", 20), "max_requests": case["max_requests"], "max_requests_jitter": case["jitter"]},
                      extra_addrs=[("127.0.0.1", 8001)] if case.get("binds", 1) == 2 else ())
    for i in range(case["preempt"]):
        sim.preempt_at.add(1 + choices.choose(3000, "preempt"))
    p = w.start_worker()
    cl = [w.add_client("c%d" % i, client_script(c), addr=w.addrs[1] if len(w.addrs) > 1 and i % 3 == 0 else None)
          for i, c in enumerate(case["clients"])]
    state = {"limit_at": None, "open_at_limit": None, "accepts_after": [], "loop_seen": None, "open": {}}

    def observer(s, actor, kind_, detail):
        wk = w.worker
        if kind_ == "app-begin" and wk is not None and state["limit_at"] is None and wk.nr >= wk.max_requests:
            state["limit_at"] = s.now
            state["open_at_limit"] = len([fd for fd, e in p.fds.items() if e.ofd.kind == "stream"])
            s.probe("limit_reached")
        elif kind_ == "accept" and actor == "worker":
            state["open"][detail[1]] = detail[0]
            if state["limit_at"] is not None:
                state["accepts_after"].append((s.now, detail[0]))
        elif kind_ == "sel-unregister" and actor == "worker" and detail in state["open"]:
            state.setdefault("dispatched", set()).add(state["open"][detail])      # handed to the thread pool
        elif kind_ == "handle-begin" and detail in state["open"]:
            state.setdefault("begun", set()).add(state["open"][detail])
    sim.observers.append(observer)
    ctx = lambda: "family=worker kind=%s max_requests=%d jitter=%d drawn_limit=%r threads=%d keepalive=%s clients=%r t=%.2f" % (
        kind, case["max_requests"], case["jitter"], getattr(w.worker, "max_requests", None), case["threads"], case["keepalive"],
        [(c["t"], c["paths"]) for c in case["clients"]], sim.now)
    try:
        sim.run(until=lambda: sim.now > 40.0 or p.state != "running" and all(c.done for c in cl) or all(c.done for c in cl) and sim.now > 12)
        if sim.crash:
            raise W.HarnessError(sim.crash)
        wk = w.worker
        limit = wk.max_requests
        handled = w.apphost.app_calls
        for name, tb in sim.escaped:
            res.violate("C18:worker:%s:exception-escaped" % kind, "exception escaped %s: %s; %s" % (name, tb[-300:], ctx()))
        if case["max_requests"] > 0 and not (case["max_requests"] <= limit <= case["max_requests"] + case["jitter"]):
            res.violate("C18:worker:%s:limit-out-of-range" % kind, "the worker's request limit is %r, configured max_requests=%d jitter=%d; %s"
                        % (limit, case["max_requests"], case["jitter"], ctx()))
        if case["max_requests"] == 0:
            if p.state != "running":
                res.violate("C18:worker:%s:recycled-without-limit" % kind, "max_requests=0 but the worker exited (status %r) after %d requests; %s"
                            % (p.status, handled, ctx()))
        elif state["limit_at"] is not None:
            # (until round 6 the async workers were given one heartbeat period (1 s) to notice the limit; the statement has no such allowance,
            #  and a fast sequential client fits any number of requests into that second)
            late_ok = []
            if handled > limit + (state["open_at_limit"] or 0) + (len(state["accepts_after"]) if kind in ("gevent", "eventlet") else 0):
                res.violate("C18:worker:%s:handled-too-many" % kind, "the worker handled %d requests; limit %d, %d connections were open when the "
                            "limit was reached; %s" % (handled, limit, state["open_at_limit"], ctx()))
            late = state["accepts_after"]
            if kind == "sync" and late:
                res.violate("C18:worker:sync:accept-after-limit", "the sync worker accepted %r after reaching its limit at t=%.2f; %s"
                            % (late[:2], state["limit_at"], ctx()))
            if kind in ("gevent", "eventlet") and len(late) > len(late_ok):
                beyond = [a for a in late if a[0] > state["limit_at"] + 1.0 + 1e-6]
                res.violate("C18:worker:%s:accept-after-limit:%s" % (kind, "later" if beyond else "within-heartbeat-period"), "the async worker went on accepting connections after it had reached its "
                            "limit at t=%.2f (reaching it only clears `alive`; the acceptor runs until the heartbeat loop wakes up, up to 1 s "
                            "later, and closes the listener): %r; %s" % (state["limit_at"], late[:3], ctx()))
            if kind == "gthread" and len(late) > len(w.addrs):
                res.violate("C18:worker:gthread:accept-after-limit", "the threaded worker accepted %d connections after reaching its limit "
                            "(at most the main-loop iteration in progress may accept one more per listener): %r; %s" % (len(late), late[:3], ctx()))
            if p.state == "running" and sim.now > state["limit_at"] + 8.0:
                res.violate("C18:worker:%s:no-exit-after-limit" % kind, "limit reached at t=%.2f, the worker is still running at t=%.2f; %s"
                            % (state["limit_at"], sim.now, ctx()))
            elif p.state != "running" and p.status != 0:
                res.violate("C18:worker:%s:exit-status" % kind, "the recycled worker exited with %r; %s" % (p.status, ctx()))
        # requests: the limit-reaching one and those in flight are answered in full; nothing the worker accepted is dropped
        for c, spec in zip(cl, case["clients"]):
            st = c.stream
            if st is None:
                continue
            srv = st.peer
            acc = getattr(srv, "accepted_by", None)
            fr = getattr(srv, "first_read", None)
            first = c.responses[0] if c.responses else None
            ok = first is not None and first["status"] == 200 and first["complete"]
            if acc is not None and not ok:
                if fr is not None:
                    res.violate("C18:worker:%s:in-flight-request-lost" % kind,
                                "client %s: the worker had started reading its request (t=%.2f) but the response is %r; log=%r; %s"
                                % (c.name, fr, first and (first["status"], first["complete"], first.get("rst"), first.get("eof")), c.log[-4:], ctx()))
                elif srv.name in state.get("dispatched", ()) and srv.name not in state.get("begun", ()):
                    res.violate("C18:worker:%s:dropped:dispatched-then-cancelled" % kind,
                                "client %s: its connection had been handed to the thread pool (request queued behind busy threads) and was "
                                "closed unanswered when the worker recycled; log=%r; %s" % (c.name, c.log[-4:], ctx()))
                else:
                    res.violate("C18:worker:%s:dropped:accepted-unread" % kind,
                                "client %s: its fresh connection was accepted at t=%.2f and closed unanswered when the worker recycled "
                                "(the request was already in the socket buffer); log=%r; %s" % (c.name, getattr(srv, "accept_time", -1), c.log[-4:], ctx()))
        res.nontrivial = state["limit_at"] is not None
        res.sim_s = sim.now
        res.faults.update(sim.faults)
        res.probes.update(sim.probes)
        res.states.add(h64("worker", kind, case["max_requests"], limit if case["max_requests"] else 0, handled, p.state))
        res.from_log(sim.log)
        res.sample = {"family": "worker", "kind": kind, "max_requests": case["max_requests"], "jitter": case["jitter"],
                      "drawn_limit": limit if case["max_requests"] else None, "handled": handled, "limit_at": state["limit_at"],
                      "worker_state": p.state, "clients": len(cl)}
    finally:
        sim.shutdown()
    return res


def run_full(case, choices):
    res = Result()
    sim = Sim(choices, max_steps=250000, max_time=200.0)
    sim.buggify = dict(case["buggify"])
    if case["buggify"].get("pyticks"):
        preempt.enable()
        sim.py_ticks = True          # eval-breaker points inside gunicorn's Python code are delivery / pre-emption points too
    kind = case["kind"]
    # timeout 6: a recycled worker that exits before the master registered it (fork/SIGCHLD race) is only forgotten by
    # the timeout scan, i.e. replaced up to `timeout` seconds later
    cfg = {"workers": case["workers"], "timeout": 2 if case.get("short_timeout") else 6, "graceful_timeout": 6 if case.get("short_timeout") else 5,
           "bind": ["127.0.0.1:8000"] + (["127.0.0.1:8001"] if case.get("binds", 1) == 2 else []), "proc_name": "m0",
           "max_requests": case["max_requests"], "max_requests_jitter": case["jitter"], "threads": case["threads"],
           "keepalive": case["keepalive"], "worker_connections": case.get("wconn", 20)}
    w = master.World(sim, cfg)
    host = w.use_real_workers(kind)
    m = w.start_master()
    cl = [w.add_client("c%d" % i, client_script(c), addr=("127.0.0.1", 8001) if case.get("binds", 1) == 2 and i % 3 == 0 else None)
          for i, c in enumerate(case["clients"])]
    state = {"worker_exits": [], "closed_listener": []}

    def observer(s, actor, kind_, detail):
        if kind_ == "exit" and actor.startswith("worker") and m.state == "running":
            state["worker_exits"].append((s.now, actor, detail))
        elif kind_ == "listener-closed" and m.state == "running":
            state["closed_listener"].append(s.now)
    sim.observers.append(observer)
    ctx = lambda: "family=full kind=%s workers=%d max_requests=%d jitter=%d threads=%d keepalive=%s clients=%r exits=%r t=%.2f" % (
        kind, case["workers"], case["max_requests"], case["jitter"], case["threads"], case["keepalive"],
        [(c["t"], c["paths"]) for c in case["clients"]], state["worker_exits"][:4], sim.now)
    try:
        sim.run(until=lambda: sim.now > 60.0 or m.state != "running" or all(c.done for c in cl) and sim.now > 10
                and sim.now > (state["worker_exits"][-1][0] if state["worker_exits"] else 0) + 9.5)
        if sim.crash:
            raise master.HarnessError(sim.crash)
        for name, tb in sim.escaped:
            res.violate("C18:full:%s:exception-escaped" % kind, "exception escaped %s: %s; %s" % (name, tb[-300:], ctx()))
        if m.state != "running":
            res.violate("C18:full:master-exited", "the master exited with %r; %s" % (m.status, ctx()))
        else:
            if state["closed_listener"]:
                res.violate("C18:full:listener-closed", "the listening socket was fully closed at t=%r during recycling; %s" % (state["closed_listener"][:1], ctx()))
            if case["max_requests"] == 0 and state["worker_exits"]:
                res.violate("C18:full:%s:recycled-without-limit" % kind, "max_requests=0 but worker(s) exited: %r; %s" % (state["worker_exits"][:2], ctx()))
            live = master.live_children(sim, m.pid)
            if len(live) != case["workers"] and sim.now > (state["worker_exits"][-1][0] if state["worker_exits"] else 0) + 6 + 3.0:
                res.violate("C18:full:not-replaced", "%d live workers at the end, configured %d; %s" % (len(live), case["workers"], ctx()))
            for t_, actor, st_ in state["worker_exits"]:
                if st_ != 0:
                    res.violate("C18:full:%s:exit-status" % kind, "recycled worker %s exited with wait-status %r; %s" % (actor, st_, ctx()))
        for c in cl:
            if c.refused:
                res.violate("C18:full:connect-refused", "client %s was refused; %s" % (c.name, ctx()))
                continue
            st = c.stream
            if st is None or m.state != "running":
                continue
            srv = st.peer
            acc = getattr(srv, "accepted_by", None)
            fr = getattr(srv, "first_read", None)
            first = c.responses[0] if c.responses else None
            ok = first is not None and first["status"] == 200 and first["complete"]
            if not ok and fr is not None:
                res.violate("C18:full:%s:in-flight-request-lost" % kind, "client %s: a worker had started reading its request but the response is %r; "
                            "log=%r; %s" % (c.name, first and (first["status"], first["complete"]), c.log[-4:], ctx()))
            elif not ok and acc is not None:
                res.violate("C18:full:%s:dropped:accepted-unread" % kind, "client %s: its fresh connection was accepted by worker pid %r and closed "
                            "unanswered when that worker recycled; log=%r; %s" % (c.name, acc, c.log[-4:], ctx()))
            elif not ok and c.done:
                res.violate("C18:full:%s:request-never-served" % kind, "client %s was never served; log=%r; %s" % (c.name, c.log[-4:], ctx()))
        if state["worker_exits"]:
            sim.probe("worker_recycled", len(state["worker_exits"]))
        res.nontrivial = bool(state["worker_exits"])
        res.sim_s = sim.now
        res.faults.update(sim.faults)
        res.probes.update(sim.probes)
        res.states.add(h64("full", kind, case["max_requests"], len(state["worker_exits"]), m.state))
        res.from_log(sim.log)
        res.sample = {"family": "full", "kind": kind, "max_requests": case["max_requests"], "workers": case["workers"],
                      "recycled": len(state["worker_exits"]), "clients": len(cl),
                      "answered": sum(1 for c in cl if c.responses and c.responses[0]["complete"])}
    finally:
        sim.shutdown()
    return res


def shrink(case):
    if case["family"] == "conn":
        cs = case["conns"]
        for i in range(len(cs)):
            if len(cs) > 1:
                yield dict(case, conns=cs[:i] + cs[i + 1:])
            if len(cs[i]) > 1:
                yield dict(case, conns=cs[:i] + [cs[i][:-1]] + cs[i + 1:])
        return
    cl = case["clients"]
    for i in range(len(cl)):
        if len(cl) > 1:
            yield dict(case, clients=cl[:i] + cl[i + 1:])
    for i, c in enumerate(cl):
        if len(c["paths"]) > 1:
            yield dict(case, clients=cl[:i] + [dict(c, paths=c["paths"][:-1])] + cl[i + 1:])
    if case["preempt"]:
        yield dict(case, preempt=0)
    if case["jitter"]:
        yield dict(case, jitter=0)
    for k, v in case["buggify"].items():
        if v:
            yield dict(case, buggify=dict(case["buggify"], **{k: False}))
