"""C19 — every handled request is logged once, truthfully, on a single line (W2)."""
import base64
import re

from simkit.core import Result, EventLog, h64, bsafe
from oracles import resp_ref
from worlds import conn, appgen, httpgen

ID = "C19"
LEVEL = "exploration"
DESIGN_REF = "DESIGN.md §4 C19"
QUICK_RUNS = 200000
THOROUGH_MIN_RUNS = 300000
BATCH = 2000
CASE_WALL_S = 20.0
RULE = ("case = 1-3 pipelined requests with hostile-but-parseable client data (request targets with quotes, percent "
        "signs, obs-text, format-like text; header values; Authorization: Basic whose decoded user name carries every "
        "byte class incl. CR/LF) or rejected inputs (C05 corpus) x one generated program per request (all body paths: "
        "iterable, list, write(), file wrapper with/without fileno, declared length cut) x worker family x an "
        "access_log_format drawn from all atoms, prefixed with parseable status/byte atoms.  Records captured from the "
        "real gunicorn.access logger are related to what the client end decoded from the wire.  distinct = distinct "
        "(requests, programs, family, format) by hash; non-trivial = at least one access record was produced")
ASSUMPTIONS = [
    "record <-> response mapping is positional on fault-free connections whose application calls all complete",
    "record count for application calls that raise is not demanded (outside the statement); only <= requests and single-line",
    "bytes 'actually sent' are the body bytes decoded from the wire (after de-chunking), never header bytes",
]
COMPONENTS = {"real": ["glogging.Logger.access/atoms/_get_user/SafeAtoms", "Response.sent accounting (write, sendfile, write_file)",
                       "worker handle_request finally blocks and Worker.handle_error of all three families"],
              "stub": ["peer + network (SimSock)", "application (generated program)", "log handlers (in-memory capture)"]}

ATOMS = ["%(h)s", "%(l)s", "%(u)s", "%(t)s", "\"%(r)s\"", "%(m)s", "%(U)s", "%(q)s", "%(H)s", "\"%(f)s\"", "\"%(a)s\"",
         "%(T)s", "%(D)s", "%(M)s", "%(L)s", "%(p)s", "%({x-h}i)s", "%({X-App}o)s", "%({content-type}o)s",
         "%({raw_uri}e)s", "%({wsgi.url_scheme}e)s", "%({http_user_agent}e)s", "%({missing}i)s", "%({authorization}i)s",
         "%({path_info}e)s", "%({query_string}e)s", "%({http_x_h}e)s", "%({remote_addr}e)s", "%({referer}i)s", "%({X-H}i)s"]
PREFIX = "ST=%(s)s BY=%(B)s by=%(b)s || "
REC = re.compile(r"^ST=(\S+) BY=(\S+) by=(\S+) \|\| ")
USERS = ["alice", "bob\nGET /forged HTTP/1.1 200", "eve\r\n127.0.0.1 - - fake", "nul\0x", "tab\tx", "caf\xc3\xa9", "q\"uote",
         "per%(s)scent", "", "x\x0by", "\x1b[31mred"]
TARGETS = ["/", "/a\"b", "/p%(s)s", "/%0a%0dforged", "/x?y=\"1\"&z=%(B)s", "/caf\xe9", "/a%20b", "/\\n", "/{s}", "/a'b",
           "/x\x0by", "/x\x7f"]
HVALS = ["plain", "with \"quotes\"", "%(s)s %(B)s", "caf\xe9", "a\tb", "\\r\\n", "x" * 300, "", "\x1b[0m", "a\x0bb"]


def gen_req(rng):
    method = rng.choice(["GET", "GET", "POST", "HEAD"])
    version = rng.choice(["1.1", "1.1", "1.0"])
    lines = ["%s %s HTTP/%s" % (method, rng.choice(TARGETS), version), "Host: h"]
    if rng.randrange(2):
        u = rng.choice(USERS).encode("latin-1")
        lines.append("Authorization: %s %s" % (rng.choice(["Basic", "basic", "BASIC"]),
                                               base64.b64encode(u + b":secret").decode()))
    if rng.randrange(2):
        lines.append("X-H: " + rng.choice(HVALS))
    if rng.randrange(3) == 0:
        lines.append("User-Agent: " + rng.choice(HVALS))
    if rng.randrange(3) == 0:
        lines.append("Referer: " + rng.choice(HVALS))
    body = ""
    if method == "POST":
        body = rng.choice(["", "abc", "x" * 100])
        lines.append("Content-Length: %d" % len(body))
    conn_h = rng.randrange(4)
    if conn_h == 0:
        lines.append("Connection: close")
    elif conn_h == 1:
        lines.append("Connection: keep-alive")
    wants_close = conn_h == 0 or (version == "1.0" and conn_h != 1)
    return {"bytes": "\r\n".join(lines) + "\r\n\r\n" + body, "method": method, "version": [1, int(version[2])],
            "wants_close": wants_close, "body": body}


def make_case(index, rng, tier):
    fmt = PREFIX + " ".join(rng.sample(ATOMS, rng.randrange(1, 9)))
    if index % 5 == 4:
        # a rejected / broken input: at most one record, single line
        msgs = httpgen.gen_stream(rng, 2, hostile=True)
        return {"mode": "hostile", "stream": b"".join(msgs).decode("latin-1"), "fmt": fmt, "family": rng.choice(conn.FAMILIES),
                "n_msgs": len(msgs), "progs": [appgen.gen_program(rng, allow_fail=False)], "keepalive": 2}
    if index % 5 == 3:
        # completed requests on a kept-alive connection followed by a request the server rejects itself: each completed request
        # is identified by a unique X-Id field that the format prints, so a record can be attributed to the request it describes
        n = rng.randrange(1, 3)
        reqs = []
        for i in range(n):
            r = gen_req(rng)
            while r["bytes"].startswith("HEAD") or " HTTP/1.0" in r["bytes"].split("\r\n")[0]:
                r = gen_req(rng)
            r = dict(r, bytes=r["bytes"].replace("\r\nHost: h\r\n", "\r\nHost: h\r\nX-Id: id%d\r\n" % i, 1))
            reqs.append(r)
        tail = rng.choice(["GARBAGE\r\n\r\n", "GET / HTTP/9.9\r\nHost: h\r\n\r\n", "GET /t HTTP/1.1\r\nBad Header: x\r\n\r\n",
                           "GET /t HTTP/1.1\r\nHost: h\r\nContent-Length: -1\r\n\r\n", "GET /t HTTP/1.1\r\nNoColon\r\n\r\n",
                           "POST /t HTTP/1.1\r\nHost: h\r\nContent-Length: 1\r\nTransfer-Encoding: chunked\r\n\r\n0\r\n\r\n",
                           "G\0T /t HTTP/1.1\r\n\r\n", "GET /" + "a" * 5000 + " HTTP/1.1\r\n\r\n"])
        progs = [appgen.gen_program(rng, allow_fail=False) for _ in range(n)]
        if rng.randrange(3) == 0:
            # the last completed request carries a chunked body the application does not read, whose trailer section is malformed: the
            # server meets the error only when it discards that body on the way to the next request - after this one was answered and logged
            bad = rng.choice(["Bad Trailer: x", "NoColon", "X-T: a\0b", ": empty-name", "X-T : sp"])
            reqs[-1] = dict(reqs[-1], method="POST", body="hello", wants_close=False,
                            bytes="POST /up HTTP/1.1\r\nHost: h\r\nX-Id: id%d\r\nTransfer-Encoding: chunked\r\n\r\n5\r\nhello\r\n0\r\n%s\r\n\r\n"
                            % (n - 1, bad))
            progs[-1]["read_body"] = "none"
            tail = rng.choice(["", tail])
        return {"mode": "mixed", "reqs": reqs, "tail": tail, "progs": progs, "fmt": "ID=%({x-id}i)s " + fmt, "family": rng.choice(conn.FAMILIES),
                "keepalive": 2, "sendfile": rng.choice([None, None, False])}
    n = rng.randrange(1, 4)
    reqs = [gen_req(rng) for _ in range(n)]
    progs = [appgen.gen_program(rng, allow_fail=(index % 7 == 0)) for _ in range(n)]
    for p in progs:
        if p["kind"] in ("iter", "write") and p["chunks"] and not p.get("fail") and rng.randrange(4) == 0:
            # after the first piece of the body the application calls start_response again (the error-handler idiom, too late: the head
            # is out) and swallows what that call raises: the client keeps the first status, and so must the record
            p["second_sr"] = {"status": rng.choice(["500 Late", "404 Late", "200 OK"]), "headers": [["Content-Type", "text/plain"]],
                              "exc_info": rng.randrange(4) != 0, "when": "after_write", "swallow": True}
    return {"mode": "normal", "reqs": reqs, "progs": progs, "fmt": fmt, "family": rng.choice(conn.FAMILIES),
            "keepalive": rng.choice([0, 2, 2]), "sendfile": rng.choice([None, None, False])}


def run(case, choices):
    res = Result()
    log = EventLog()
    conn.reset_run()
    fam = case["family"]
    kw = {"keepalive": case["keepalive"], "access_log_format": case["fmt"]}
    if case.get("sendfile") is False:
        kw["sendfile"] = False
    cfg = conn.make_cfg(**kw)
    state = conn.AppState()
    worker = conn.make_worker(fam, cfg, conn.make_app(case["progs"], state))
    if case["mode"] == "hostile":
        data = case["stream"].encode("latin-1")
        nreq = case["n_msgs"]
    else:
        data = ("".join(r["bytes"] for r in case["reqs"]) + case.get("tail", "")).encode("latin-1")
        nreq = len(case["reqs"]) + (1 if case.get("tail") else 0)
    sock = conn.SimSock(data, ())
    esc = conn.serve(worker, fam, sock)
    wire = bytes(sock.wire)
    recs = [m for lvl, m in conn.ACCESS.records]
    errs = [m for lvl, m in conn.ERRORS.records if "Traceback" in m and "glogging" in m]
    log.add(fam, "served", (len(wire), state.calls, len(recs)))
    ctx = lambda: "family=%s fmt=%r data=%s records=%r wire=%s" % (fam, case["fmt"], bsafe(data, 300), [r[:200] for r in recs][:4], bsafe(wire, 200))
    if esc is not None:
        res.violate("C19:%s:exception-escaped" % fam, "handle() let %r escape; %s" % (esc, ctx()))
    for lvl, m in conn.ACCESS.records:
        if lvl == "FORMAT-ERROR":
            res.violate("C19:format-error", "formatting an access record failed: %s; %s" % (m, ctx()))
    for m in errs:
        res.violate("C19:access-raised", "Logger.access raised while formatting: %s; %s" % (m[-300:], ctx()))
    for r in recs:
        if "\n" in r or "\r" in r:
            which = "other"
            for atom, probe in (("U-or-path_info", "/\n\rforged"), ("u", "forged"), ("u", "fake"), ("i", "X-H")):
                if probe in r:
                    which = atom
                    break
            res.violate("C19:%s:multi-line" % which, "an access record spans several lines: %s; %s" % (bsafe(r.encode("latin-1", "replace"), 200), ctx()))
            break
    # every application call yields at most one record, and at most one server-rejected request ends the connection
    # (the number of generated messages is no bound: a mutated head can turn a body into further requests)
    if len(recs) > state.calls + 1 and not state.failed:
        # (an application call that raises may be logged by the request handler and again by the error path:
        #  failing calls are outside the property's statement)
        res.violate("C19:too-many-records", "%d records for %d application calls (+ at most one rejected request); %s" % (len(recs), state.calls, ctx()))
    if case["mode"] == "normal" and esc is None and not state.failed:
        reqs = case["reqs"]
        resps, probs, rest = resp_ref.parse(wire, [{"method": r["method"]} for r in reqs] + [{"method": "GET"}])
        finals = [r for r in resps if not r.get("interim")]
        clean = finals and all(r.get("code") is not None and r["complete"] in (True, None) and not resp_ref.is_error_page(r) for r in finals) \
            and not probs and not rest and len(finals) == state.calls == state.completed
        if clean:
            if len(recs) != len(finals):
                res.violate("C19:%s:record-count" % fam, "%d completed application calls answered on the wire but %d access records; %s"
                            % (len(finals), len(recs), ctx()))
            else:
                for i, (r, rec) in enumerate(zip(finals, recs)):
                    m = REC.match(rec)
                    prog = case["progs"][i]
                    path = prog["kind"] + ("+fileno" if prog["kind"] == "file" and prog["file"]["fileno"] and case.get("sendfile") is not False else "")
                    if not m:
                        res.violate("C19:unparseable-record", "record does not start with the format's fixed prefix: %r; %s" % (rec[:120], ctx()))
                        break
                    st, B, b = m.groups()
                    if st != str(r["code"]):
                        res.violate("C19:s:wrong-status", "record %d says status %s, the client received %s; %s" % (i, st, r["code"], ctx()))
                        break
                    sent = len(r["body"])
                    if B != str(sent) or b != str(sent):
                        res.violate("C19:B:%s" % path, "record %d says %s/%s body bytes, the client received %d (body path: %s); %s"
                                    % (i, B, b, sent, path, ctx()))
                        break
    if case["mode"] == "mixed" and esc is None and not state.failed:
        # attribution: a record that prints a completed request's X-Id describes that request; exactly one record may do so, and the
        # record (if any) of the request the server rejected itself must not carry a completed request's identity
        ids = {}
        for rec in recs:
            m = re.match(r"^ID=(\S+) ", rec)
            if m:
                ids.setdefault(m.group(1), []).append(rec)
        for i in range(min(state.completed, len(case["reqs"]))):
            got = ids.get("id%d" % i, [])
            if len(got) != 1:
                res.violate("C19:%s:records-per-completed-request:%d" % (fam, min(len(got), 2)),
                            "request id%d completed its application call, yet %d access records describe it (one of them belongs to "
                            "the later, rejected request): %r; %s" % (i, len(got), [g[:120] for g in got], ctx()))
                break
        res.probes["mixed_completed:%d" % state.completed] += 1
    res.nontrivial = bool(recs)
    res.from_log(log)
    res.shape = h64(data, case["progs"], fam, case["fmt"])
    res.states.add(h64(fam, case["mode"], len(recs), state.calls, bool(state.failed)))
    res.sample = {"family": fam, "mode": case["mode"], "fmt": case["fmt"], "data": bsafe(data, 160),
                  "records": [r[:160] for r in recs][:3]}
    return res


def shrink(case):
    if case["mode"] == "normal":
        n = len(case["reqs"])
        for i in range(n):
            if n > 1:
                yield dict(case, reqs=case["reqs"][:i] + case["reqs"][i + 1:], progs=case["progs"][:i] + case["progs"][i + 1:])
        for i, r in enumerate(case["reqs"]):
            lines = r["bytes"].split("\r\n\r\n")[0].split("\r\n")
            for j in range(1, len(lines)):
                if lines[j].startswith("Content-Length"):
                    continue
                nb = "\r\n".join(lines[:j] + lines[j + 1:]) + "\r\n\r\n" + r["body"]
                yield dict(case, reqs=case["reqs"][:i] + [dict(r, bytes=nb)] + case["reqs"][i + 1:])
    if case["fmt"] != PREFIX:
        parts = case["fmt"][len(PREFIX):].split(" ")
        for j in range(len(parts)):
            yield dict(case, fmt=PREFIX + " ".join(parts[:j] + parts[j + 1:]))
