"""C14 — binary upgrade (USR2) hands the listening sockets over without a gap (W4; histories x schedules)."""
import signal

from simkit.core import Result, h64
from simkit.kernel import Sim, current_task
from simkit import preempt
from worlds import master

ID = "C14"
LEVEL = "exploration"
DESIGN_REF = "DESIGN.md §4 C14"
QUICK_RUNS = 8000
THOROUGH_MIN_RUNS = 40000
BATCH = 50
CASE_WALL_S = 60.0
ISOLATE = True      # every run in a forked child: no interpreter state leaks from one simulated server to the next
RULE = ("case = the real Arbiter with stub workers under client load and a seeded ordering of {USR2, TERM/QUIT old master, TERM/QUIT "
        "new master, second USR2, WINCH old (daemon mode), HUP old, new master killed}; TCP or unix-socket bind; the exec'd 'binary' is "
        "the same real Arbiter started as a new simulated process from the environment the real reexec() built (GUNICORN_PID, "
        "GUNICORN_FD), adopting the descriptors through the real sock.create_sockets(fds).  Oracles on every kernel event: no "
        "connect() refused while a master that is not shutting down exists; the unix socket file exists as long as such a master "
        "exists; a master exiting while the other one lives does not unlink it; USR2 while an upgrade child lives forks nothing; "
        "pid-file contents ('.2' for the new master, configured name within 2.5 s of the old master being gone); after the new "
        "master is gone the old one can upgrade again.  distinct = distinct event-trace shapes; non-trivial = at least one USR2 led "
        "to a new master")
ASSUMPTIONS = [
    "execvpe keeps descriptors that are not close-on-exec and replaces the environment; the new master is the same code (there is "
    "only one binary in the simulation)",
    "'never refused' is judged at instants at which at least one master exists that has not started shutting down",
    "promotion bound: 2 loop periods (1 s each) + 0.5 s after the old master's exit",
    "systemd socket activation (LISTEN_FDS) is not part of these histories",
]
COMPONENTS = {"real": ["Arbiter.handle_usr2/reexec/start (fd adoption)/maybe_promote_master/stop (unlink predicate)/reap_workers (reexec_pid reset)",
                       "sock.create_sockets(fds)/BaseSocket(fd=)/close_sockets/UnixSocket", "Pidfile.create/rename/unlink", "systemd.listen_fds"],
              "stub": ["kernel (fork, execvpe, descriptors, file system)", "worker run loop (4/7 of the cases; in 3/7 the real sync / gthread / gevent / eventlet worker serves the clients on both sides of the hand-over)", "clients"]}

EVENTS = ["usr2", "usr2", "term_old", "quit_old", "term_new", "quit_new", "usr2_again", "kill_new", "winch_old", "hup_old", "usr2_new", "hup_new"]


def make_case(index, rng, tier):
    evs = [{"t": round(rng.uniform(0.5, 1.5), 2), "do": "usr2"}]
    t = evs[0]["t"]
    for _ in range(rng.randrange(1, 6)):
        t += round(rng.uniform(0.3, 3.0), 2)
        evs.append({"t": round(t, 2), "do": rng.choice(EVENTS)})
    clients = []
    tc = 0.2
    while tc < t + 4.0 and len(clients) < 16:
        clients.append({"t": round(tc, 2), "dur": rng.choice([0, 0, 0.3, 1.0])})
        tc += rng.uniform(0.2, 0.9)
    real = rng.choice([None, None, None, "sync", "gthread", "gevent", "eventlet"])
    exec_fail = rng.choice([None] * 5 + ["ENOENT", "EACCES"])      # the new binary cannot be executed (first USR2 only)
    fork_fail = rng.choice([None] * 8 + ["EAGAIN", "ENOMEM"]) if exec_fail is None else None      # ... or cannot even be forked
    new_boot_fail = rng.choice([None] * 6 + ["exit3", "exit4"]) if real is None and exec_fail is None else None
    # the disk is full (or /run read-only) for a moment, at the n-th file-system operation after the first USR2
    fs_fault = rng.choice([None] * 7 + [{"nth": rng.randrange(1, 12), "errno": rng.choice(["ENOSPC", "EACCES"])}]) if exec_fail is None else None
    return {"events": evs, "clients": clients, "unix": rng.randrange(2) == 0, "workers": rng.randrange(1, 3), "real": real, "exec_fail": exec_fail,
            "new_boot_fail": new_boot_fail, "fs_fault": fs_fault, "fork_fail": fork_fail,
            "graceful_timeout": rng.choice([1, 2]), "daemon": rng.randrange(3) == 0, "pidfile": rng.randrange(4) != 0,
            "buggify": {"pyticks": rng.randrange(3) == 0, "fork_child_first": rng.randrange(2) == 0, "spurious_select": rng.randrange(3) == 0,
                        "random_spawn_delay": rng.randrange(2) == 0}}


def run(case, choices):
    res = Result()
    sim = Sim(choices, max_steps=250000, max_time=200.0)
    sim.buggify = dict(case["buggify"])
    if case["buggify"].get("pyticks"):
        preempt.enable()
        sim.py_ticks = True          # eval-breaker points inside gunicorn's Python code are delivery / pre-emption points too
    gt = case["graceful_timeout"]
    bind = "unix:/run/g.sock" if case["unix"] else "127.0.0.1:8000"
    cfg = {"workers": case["workers"], "timeout": 30, "graceful_timeout": gt, "bind": [bind], "proc_name": "m0",
           "daemon": case["daemon"]}
    if case.get("pidfile", True):
        cfg["pidfile"] = "/run/g.pid"
    w = master.World(sim, cfg)
    if case["unix"]:
        w.addr = "/run/g.sock"
    real = case.get("real")
    if real:
        # the real worker class serves the clients on both sides of the hand-over (the exec'd master builds its workers from the same code)
        w.cfgsrc.update({"threads": 2, "keepalive": 0, "worker_connections": 10})
        w.use_real_workers(real)
        sim.probe("real_worker_class:" + real)
    execs = {"n": 0, "failed_at": None, "child": None}
    if case.get("exec_fail"):
        import errno as _errno

        def sys_fail(p_, op):
            if op == "execvpe":
                execs["n"] += 1
                if execs["n"] == 1:
                    execs["failed_at"] = sim.now
                    execs["child"] = p_.pid
                    sim.probe("exec_of_new_master_failed")
                    return getattr(_errno, case["exec_fail"])
            return None
        sim.sys_fail = sys_fail
    if case.get("fork_fail"):
        import errno as _errno3

        def sys_fail_fork(p_, op):
            a_ = w.masters.get(p_.pid)
            if op == "fork" and a_ is not None and a_._forking == "reexec" and not state.get("fork_failed"):
                state["fork_failed"] = sim.now
                sim.probe("fork_of_new_master_failed")
                return getattr(_errno3, case["fork_fail"])
            return None
        sim.sys_fail = sys_fail_fork
    m0 = w.start_master()
    masters = [m0]               # process objects of every master generation, in creation order
    if case.get("fs_fault"):
        import errno as _errno2
        ff = case["fs_fault"]
        fcnt = {"n": 0}

        def fs_fail(op, path):
            if len(masters) < 2 or not str(path).startswith("/run/g.pid"):
                return None
            fcnt["n"] += 1
            if fcnt["n"] == ff["nth"]:
                sim.probe("pid_file_operation_failed_during_upgrade")
                state["fs_fault_at"] = sim.now
                return getattr(_errno2, ff["errno"])
            return None
        sim.fs_fail = fs_fail
    if case.get("new_boot_fail"):
        # the release the server is upgraded to cannot boot its workers: the new master halts (exit status 3 / 4) - a failed upgrade, after
        # which the old master must simply carry on
        w.boot_fail_kind = case["new_boot_fail"]
        w.boot_fail_under = lambda wp: wp.ppid != m0.pid
        sim.probe("new_release_cannot_boot")
    state = {"stopping": {}, "exits": {}, "reexec_forks": [], "refused": [], "node_missing": [], "new_booted": {}}

    def running_masters():
        """Masters that are serving: running, listeners adopted/bound, not shutting down."""
        out = []
        for mp in masters:
            if mp.state != "running":
                continue
            a = w.masters.get(mp.pid)
            if a is None or getattr(a, "_world_stopping", False) or not a.LISTENERS:
                continue
            out.append(mp)
        return out

    expected = {}        # master pid -> expected number of workers (None = unknown yet)
    last_change = {}

    def observer(s, actor, kind, detail):
        t = current_task()
        if kind == "handle" and t is not None and t.proc in masters:
            if detail == "winch" and case["daemon"]:
                expected[t.proc.pid] = 0
                last_change[t.proc.pid] = s.now
            elif detail == "hup":
                expected[t.proc.pid] = case["workers"]
                last_change[t.proc.pid] = s.now
        if kind == "exec":
            p = t.proc
            if p not in masters:
                p.parent_pid = p.ppid
                p.exec_time = s.now
                masters.append(p)
                s.probe("new_master_execed")
        elif kind == "exit":
            p = t.proc if t is not None else None
            if p is not None and p in masters:
                state["exits"][p.pid] = s.now
                others = [x for x in running_masters() if x is not p]
                if others and case["unix"]:
                    if "/run/g.sock" not in s.fs:
                        res.violate("C14:unix-socket-unlinked-by-first-exit",
                                    "master pid %d exited while master(s) %r keep serving, and the unix socket file is gone"
                                    % (p.pid, [x.pid for x in others]))
                    else:
                        s.probe("unix_socket_unlink_skipped_for_partner")
                if others:
                    s.probe("old_master_exits_first" if p is m0 else "new_master_exits_first")
        elif kind == "fork" and t is not None and t.proc in masters:
            a = w.masters.get(t.proc.pid)
            if a is not None and a._forking == "reexec":
                alive_child = [c for c in s.procs.values() if c.ppid == t.proc.pid and c.state == "running" and c in masters]
                if alive_child:
                    res.violate("C14:second-usr2-forked", "master pid %d forked a second upgrade child while pid %r is alive"
                                % (t.proc.pid, [c.pid for c in alive_child]))
                state["reexec_forks"].append((s.now, t.proc.pid, detail))
        elif kind == "kill" and t is not None and execs["child"] is not None and t.proc.pid == execs["child"]:
            state.setdefault("child_kills", []).append((s.now, actor, detail))
        elif kind == "connect-refused":
            rm = running_masters()
            if rm:
                state["refused"].append((s.now, [x.pid for x in rm]))
        elif kind == "rename" and isinstance(detail, tuple) and detail[1] == "/run/g.pid" and t is not None and t.proc is not m0 and t.proc in masters:
            s.probe("promotion_rename")
    sim.observers.append(observer)

    def newest():
        for mp in reversed(masters):
            if mp is not m0:
                return mp
        return None

    def do(ev):
        kind = ev["do"]
        new = newest()
        tgt, sig = None, None
        if kind in ("usr2", "usr2_again"):
            tgt, sig = m0, signal.SIGUSR2
            if kind == "usr2_again" and new is not None and new.state == "running":
                sim.probe("second_usr2_while_child_alive")
        elif kind == "term_old":
            tgt, sig = m0, signal.SIGTERM
        elif kind == "quit_old":
            tgt, sig = m0, signal.SIGQUIT
        elif kind == "winch_old":
            tgt, sig = m0, signal.SIGWINCH
        elif kind == "hup_old":
            tgt, sig = m0, signal.SIGHUP
        elif new is not None:
            if kind == "term_new":
                tgt, sig = new, signal.SIGTERM
            elif kind == "quit_new":
                tgt, sig = new, signal.SIGQUIT
            elif kind == "kill_new":
                tgt, sig = new, signal.SIGKILL
            elif kind == "hup_new":
                tgt, sig = new, signal.SIGHUP          # a reload of the new master while the upgrade is still pending
            elif kind == "usr2_new":
                tgt, sig = new, signal.SIGUSR2
                pe = state["exits"].get(getattr(new, "parent_pid", -1))
                kids = [c for c in sim.procs.values() if c.ppid == new.pid and c.state == "running" and c in masters]
                if pe is not None and sim.now > pe + 2.5 and new in running_masters() and not kids:
                    state.setdefault("usr2_promoted", []).append((sim.now, new.pid))
        if tgt is None or tgt.state != "running":
            return
        if sig != signal.SIGKILL and int(sig) not in tgt.handlers:
            return          # not booted far enough to have handlers: outside the histories
        state.setdefault("sent", {}).setdefault(tgt.pid, []).append((sim.now, kind))
        sim.fault("signal:%s" % kind)
        sim.kill(tgt.pid, int(sig))
    for ev in case["events"]:
        sim.after(ev["t"], (lambda ev=ev: do(ev)))
    cl = []
    for i, c in enumerate(case["clients"]):
        reqs = "GET /r%d HTTP/1.1\r\nHost: h\r\nX-Dur: %s\r\n\r\n" % (i, c["dur"])
        if real:
            dur = min(c["dur"], 0.3) if gt == 1 else c["dur"]
            reqs = "GET %s HTTP/1.1\r\nHost: h\r\nConnection: close\r\n\r\n" % ("/sleep/%s" % dur if dur else "/a")
        cl.append(w.add_client("c%d" % i, [["wait", c["t"]], ["connect"], ["send", reqs], ["recv", 30.0]]))
    t_end = max(e["t"] for e in case["events"]) + gt + 6.0
    ctx = lambda: "unix=%s workers=%d graceful=%s daemon=%s events=%r buggify=%r masters=%r t=%.2f" % (
        case["unix"], case["workers"], gt, case["daemon"], case["events"], case["buggify"], [(x.pid, x.state, x.status) for x in masters], sim.now)

    # periodic sampling of the pid files and of the socket node
    samples = []

    def sample():
        rm = running_masters()
        node = "/run/g.sock" in sim.fs
        p1 = sim.fs.get("/run/g.pid")
        p2 = sim.fs.get("/run/g.pid.2")
        samples.append((sim.now, [x.pid for x in rm], node, bytes(p1.data) if p1 else None, bytes(p2.data) if p2 else None))
        if case["unix"] and rm and not node:
            state["node_missing"].append((sim.now, [x.pid for x in rm]))
        if sim.now < t_end:
            sim.after(0.25, sample)
    sim.after(0.3, sample)
    try:
        sim.run(until=lambda: sim.now >= t_end)
        if sim.crash:
            raise master.HarnessError(sim.crash)
        for name, tb in sim.escaped:
            if name.startswith("master") and state.get("fs_fault_at") is not None and "self.start()" in tb:
                continue          # a master that cannot write its pid file at start-up refuses to start (with a traceback): a failed upgrade
            if name.startswith("master"):
                res.violate("C14:master-crashed", "an exception escaped %s: %s; %s" % (name, tb[-500:], ctx()))
        # a master only ever leaves because it was told to (TERM / QUIT / KILL): a reload, an upgrade or a worker event must not end it
        for mp in masters:
            if mp.state == "running":
                continue
            asked = [k for (t_, k) in state.get("sent", {}).get(mp.pid, []) if k.startswith(("term", "quit", "kill"))]
            if mp is not m0 and case.get("new_boot_fail"):
                continue          # it halted because its workers cannot boot (C03's clause); what matters here is that the OLD one goes on
            if mp is not m0 and state.get("fs_fault_at") is not None and not any(pp == mp.pid for _t, pp, _c, _k in w.forks):
                continue          # a new master that cannot write its pid file refuses to start: a failed upgrade, the old one goes on
            if not asked:
                hist = [k for (t_, k) in state.get("sent", {}).get(mp.pid, [])]
                res.violate("C14:master-exited-unasked:%s" % ("new" if mp is not m0 else "old"),
                            "master pid %d exited with wait status %r although it was never told to stop (signals it received: %r); logs=%r; %s"
                            % (mp.pid, mp.status, hist, [l for l in w.logs if l[0] in ("ERROR", "CRITICAL")][-2:], ctx()))
        if state["refused"]:
            res.violate("C14:connect-refused:%s" % ("unix" if case["unix"] else "tcp"),
                        "a client was refused at t=%.2f while master(s) %r were serving; %s" % (state["refused"][0][0], state["refused"][0][1], ctx()))
        if state["node_missing"]:
            res.violate("C14:unix-socket-missing", "the unix socket file was absent at t=%.2f while master(s) %r were serving; %s"
                        % (state["node_missing"][0][0], state["node_missing"][0][1], ctx()))
        # pid files
        for (t, rm, node, p1, p2) in samples:
            if state.get("fs_fault_at") is not None and t >= state["fs_fault_at"] - 1e-9:
                break             # after a failed pid-file operation the files may be stale or missing (an operation may fail; what may not
                                  # happen is that a serving master dies of it, which is judged above)
            news = [x for x in masters[1:] if x.pid in rm]
            if len(news) != 1 or not case.get("pidfile", True):
                continue
            nm = news[0]
            mine = ("%d\n" % nm.pid).encode()
            parent_exit = state["exits"].get(nm.parent_pid)
            if parent_exit is None or t < parent_exit:
                # the master that started it is alive: the new master's pid belongs under the '.2' name
                if p2 != mine:
                    res.violate("C14:pidfile2-wrong", "at t=%.2f /run/g.pid.2 holds %r, the serving new master is pid %d; %s" % (t, p2, nm.pid, ctx()))
                if p1 == mine:
                    res.violate("C14:promoted-too-early", "at t=%.2f the configured pid file already names the new master %d while the "
                                "old one is alive; %s" % (t, nm.pid, ctx()))
            elif t > parent_exit + 2.5:
                if p1 != mine:
                    res.violate("C14:not-promoted", "the old master exited at t=%.2f; at t=%.2f the configured pid file holds %r instead of "
                                "the new master's pid %d; %s" % (parent_exit, t, p1, nm.pid, ctx()))
                elif p2 == mine:
                    res.violate("C14:pidfile2-left", "after promotion the '.2' pid file is still there; %s" % ctx())
        # a new binary that cannot be exec'd: the forked child is still a copy of the old master - whatever it does on its way out, the old
        # master's workers, pid file and unix socket file are not its to touch
        if execs["failed_at"] is not None:
            a0_ = w.masters.get(m0.pid)
            told = [k for (t_, k) in state.get("sent", {}).get(m0.pid, []) if k in ("term_old", "quit_old") and t_ <= execs["failed_at"] + 3.0]
            if m0.state == "running" and a0_ is not None and not getattr(a0_, "_world_stopping", False) and not told:
                kills = [(t_, d_) for (t_, who, d_) in state.get("child_kills", []) if d_[1] not in ("SIGCLD", "SIGCHLD")]
                if kills:
                    res.violate("C14:exec-failed:child-signalled-old-workers", "the forked child whose exec failed sent %r to the old master's "
                                "workers; %s" % (kills[:3], ctx()))
                if case.get("pidfile", True):
                    p1_ = sim.fs.get("/run/g.pid")
                    newer = [x for x in masters[1:] if x.state == "running"]
                    if not newer and (p1_ is None or bytes(p1_.data) != ("%d\n" % m0.pid).encode()):
                        res.violate("C14:exec-failed:pidfile-lost", "the exec of the new master failed at t=%.2f; afterwards the old master (pid %d, "
                                    "still serving) has lost its pid file (now %r); %s"
                                    % (execs["failed_at"], m0.pid, bytes(p1_.data) if p1_ else None, ctx()))
                if case["unix"] and "/run/g.sock" not in sim.fs:
                    res.violate("C14:exec-failed:unix-socket-unlinked", "the exec of the new master failed at t=%.2f and the unix socket file of the "
                                "old master, which keeps serving, is gone; %s" % (execs["failed_at"], ctx()))
        # a promoted master (its parent is gone for more than 2.5 s) must accept USR2 itself
        for (tu, npid) in state.get("usr2_promoted", []):
            np_ = sim.procs.get(npid)
            if np_ is None or state["exits"].get(npid, 1e9) < tu + 1.5 or tu + 1.5 > sim.now:
                continue
            if not any(fp == npid and tu - 1e-9 <= ft <= tu + 1.5 for ft, fp, _c in state["reexec_forks"]):
                res.violate("C14:promoted-master-cannot-upgrade",
                            "USR2 was sent at t=%.2f to master pid %d whose parent had been gone for more than 2.5 s: no upgrade child "
                            "was forked (the survivor never became a full master); %s" % (tu, npid, ctx()))
        # every serving master keeps its pool: configured size, 0 after WINCH in daemon mode, configured size again after HUP
        for mp in running_masters():
            exp = expected.get(mp.pid, case["workers"])
            since = max(last_change.get(mp.pid, 0.0), getattr(mp, "exec_time", 0.0))
            booted = [tt for tt, pp, cc, kk in w.forks if pp == mp.pid and kk == "worker"]
            if not booted or sim.now < max(since, booted[0]) + 3.5:
                continue
            live = [c for c in sim.procs.values() if c.ppid == mp.pid and c.state == "running" and c not in masters]
            if len(live) != exp:
                res.violate("C14:pool-size:%s" % ("empty" if not live else "wrong"),
                            "master pid %d serves with %d live workers, expected %d (configured %d%s); %s"
                            % (mp.pid, len(live), exp, case["workers"], ", WINCH/HUP history applied" if mp.pid in expected else "", ctx()))
        # the old master must be able to upgrade again once the new one is gone
        a0 = w.masters.get(m0.pid)
        stale_reexec = False
        if a0 is not None and execs["failed_at"] is not None and a0.reexec_pid == execs["child"]:
            cp_ = sim.procs.get(execs["child"])
            if (cp_ is None or cp_.state != "running") and sim.now > execs["failed_at"] + 1.5:
                # the child whose exec failed exited - and was reaped by the SIGCHLD handler - before the parent had stored fork()'s return
                # value in reexec_pid: the pid is recorded afterwards and never cleared (separately keyed; what follows from it is not
                # reported a second time under the end-state keys)
                stale_reexec = True
                res.violate("C14:exec-failed:stale-reexec-pid", "the child forked for the upgrade (pid %d) failed to exec and was reaped before "
                            "fork() had returned in the parent; the old master recorded reexec_pid=%d afterwards and keeps it for ever: every "
                            "further USR2 is ignored and its socket file / pid file are not removed when it stops; %s"
                            % (execs["child"], a0.reexec_pid, ctx()))
        if m0.state == "running" and a0 is not None and not getattr(a0, "_world_stopping", False):
            kids = [x for x in masters[1:] if x.state == "running"]
            last_new_exit = max([state["exits"].get(x.pid, 0) for x in masters[1:]] + [0])
            if not kids and masters[1:] and sim.now > last_new_exit + 1.5 and a0.reexec_pid != 0 and not stale_reexec:
                res.violate("C14:reexec-pid-not-reset", "the new master is gone since t=%.2f but the old master still has reexec_pid=%r "
                            "(it would ignore every further USR2); %s" % (last_new_exit, a0.reexec_pid, ctx()))
        # after everything is over: nothing left behind by the last master to exit
        if not [x for x in masters if x.state == "running"]:
            last = max(state["exits"].items(), key=lambda kv: kv[1])[0] if state["exits"] else None
            killed = [x for x in masters if x.status is not None and x.status & 0x7F]
            ex = sorted(state["exits"].values())
            # the last master to go must clean up - unless the previous one left less than 2.5 s earlier (the survivor
            # may legitimately not have noticed yet that it is alone: promotion happens once per loop period)
            settled = len(ex) < 2 or ex[-1] - ex[-2] > 2.5
            if not killed and settled and not stale_reexec and state.get("fs_fault_at") is None:
                if case["unix"] and "/run/g.sock" in sim.fs:
                    res.violate("C14:unix-socket-left", "every master has exited but the unix socket file remains; %s" % ctx())
                for pth in ("/run/g.pid", "/run/g.pid.2"):
                    if pth in sim.fs:
                        res.violate("C14:pidfile-left:%s" % pth[-5:], "every master has exited but %s remains with %r; %s" % (pth, bytes(sim.fs[pth].data), ctx()))
        if real:
            # "the old one keeps serving": a request a worker started reading is answered in full unless the master that owns that
            # worker was told to shut down quickly (QUIT), killed, or stopped gracefully with less time left than the request needs
            for c, spec in zip(cl, case["clients"]):
                st = c.stream
                if st is None:
                    continue
                srv = st.peer
                fr = getattr(srv, "first_read", None)
                acc = getattr(srv, "accepted_by", None)
                ok = c.responses and c.responses[0]["status"] == 200 and c.responses[0]["complete"]
                if ok or fr is None or acc is None:
                    continue
                wp = sim.procs.get(acc)
                owner = wp.ppid if wp is not None else None
                hist = [k for mp_ in masters for (t_, k) in state.get("sent", {}).get(mp_.pid, []) if mp_.pid == owner or owner == 1]
                harsh = [k for k in hist if k.startswith("quit") or k.startswith("kill")]
                # a worker whose master vanished (ppid 1) or was told to stop is outside this clause; C04 owns graceful stops
                if owner in (None, 1) or harsh or any(k.startswith("term") for k in hist) or getattr(w.masters.get(owner), "_world_stopping", False):
                    sim.probe("request_cut_by_requested_shutdown")
                    continue
                if wp is not None and wp.status is not None and (wp.status & 0x7F):
                    continue      # the worker itself was killed by a signal of the history
                res.violate("C14:full:%s:request-cut-during-handover" % real,
                            "client %s: worker pid %r (master %r, never told to stop) had started reading its request at t=%.2f but the response is %r; "
                            "log=%r; %s" % (c.name, acc, owner, fr, [(r["status"], r["complete"]) for r in c.responses], c.log[-5:], ctx()))
                break
        for c in cl:
            if c.stream is not None and c.responses and not c.responses[0]["complete"]:
                srv = c.stream.peer
                if getattr(srv, "first_read", None) is not None and c.responses[0].get("rst"):
                    sim.probe("request_reset_during_handover")
        res.nontrivial = len(masters) > 1
        res.sim_s = sim.now
        res.faults.update(sim.faults)
        res.probes.update(sim.probes)
        res.states.add(h64(case["unix"], [(x.state, x.status) for x in masters], len(state["reexec_forks"])))
        res.from_log(sim.log)
        res.sample = {"unix": case["unix"], "events": case["events"], "masters": [(x.pid, x.state, x.status) for x in masters],
                      "clients": len(cl), "answered": sum(1 for c in cl if c.responses and c.responses[0]["complete"]),
                      "refused_while_serving": len(state["refused"]), "sim_seconds": round(sim.now, 2)}
    finally:
        sim.shutdown()
    return res


def shrink(case):
    ev = case["events"]
    for i in range(1, len(ev)):
        yield dict(case, events=ev[:i] + ev[i + 1:])
    for i in range(len(case["clients"])):
        yield dict(case, clients=case["clients"][:i] + case["clients"][i + 1:])
    for k, v in case["buggify"].items():
        if v:
            yield dict(case, buggify=dict(case["buggify"], **{k: False}))
    if case["workers"] > 1:
        yield dict(case, workers=1)
