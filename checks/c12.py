"""C12 — request-head limits are enforced and parser buffering is bounded (W1; adversarial lazy peer)."""
from simkit.core import Result, EventLog, h64, bsafe
from worlds.stream import make_cfg, observe, CutSock
from gunicorn.http.message import MAX_REQUEST_LINE, MAX_HEADERS, DEFAULT_MAX_HEADERFIELD_SIZE

ID = "C12"
LEVEL = "exploration"
DESIGN_REF = "DESIGN.md §4 C12"
QUICK_RUNS = 120000
THOROUGH_MIN_RUNS = 100000
BATCH = 1000
CASE_WALL_S = 60.0
RULE = ("two case families.  limits: seeded (limit_request_line, limit_request_fields, limit_request_field_size) incl. "
        "boundary values and 0 where documented, and an otherwise valid request whose request line / field count / "
        "one field is placed at limit-3..limit+3 (or far beyond), delivered under a seeded segmentation; oracle with a "
        "2-byte band for the undocumented unit (with/without CRLF): over => rejected and never yielded, within => "
        "yielded.  buffering: an endless lazy peer that never sends the delimiter the parser waits for (request line, "
        "header block, header line, chunk-size line, chunk extension, trailer block), metered per recv; bytes consumed "
        "before rejection must stay <= max(limit_request_line, max_buffer_headers) + 2*8192; the run is cut at 4x that. "
        "distinct = distinct (family, cfg, request/peer shape) by hash; all runs non-trivial")
ASSUMPTIONS = [
    "limit units: a size exactly at the limit or up to 2 bytes under it may go either way (CRLF counted or not), but the same way under every segmentation of the same bytes",
    "where the configuration documents 0 = unlimited (limit_request_line, limit_request_field_size) no bound is claimed for that state",
    "the bound B(cfg) = max(limit_request_line, max_buffer_headers) + 2*8192 is the harness's reading of 'a bound determined by the configuration'",
    "chunk *data* is streamed to the consumer and is not protocol data held in memory",
]
COMPONENTS = {"real": ["gunicorn.http.message.Request.parse/read_line/parse_headers", "gunicorn.http.body.ChunkedReader"],
              "stub": ["endless lazy peer with per-recv meter (CutSock end='endless')"]}

STATES = ["request-line", "header-block", "header-line", "chunk-size", "chunk-ext", "trailer-block", "trailer-line"]


def eff(cfgd):
    L = cfgd.get("limit_request_line", 4094)
    if L < 0 or L >= MAX_REQUEST_LINE:
        L = MAX_REQUEST_LINE
    F = cfgd.get("limit_request_fields", 100)
    if F <= 0 or F > MAX_HEADERS:
        F = MAX_HEADERS
    S = cfgd.get("limit_request_field_size", 8190)
    if S < 0:
        S = DEFAULT_MAX_HEADERFIELD_SIZE
    maxbuf = F * ((S or DEFAULT_MAX_HEADERFIELD_SIZE) + 2) + 4
    return L, F, S, maxbuf


def make_case(index, rng, tier):
    cfgd = {}
    if rng.randrange(4):
        cfgd["limit_request_line"] = rng.choice([0, 16, 40, 100, 4094, 8190, 9000])
    if rng.randrange(4):
        cfgd["limit_request_fields"] = rng.choice([1, 2, 5, 20, 100])
    if rng.randrange(4):
        cfgd["limit_request_field_size"] = rng.choice([0, 12, 30, 100, 1000, 8190])
    if rng.randrange(4) == 0:
        cfgd["proxy_protocol"] = True
        cfgd["proxy_allow_ips"] = "*"
    L, F, S, maxbuf = eff(cfgd)
    if index % 3 != 0:
        # ---- limits family
        dim = rng.choice(["line", "count", "size", "none"])
        delta = rng.choice([-3, -2, -1, 0, 1, 2, 3, 40, 5000])
        base = b"GET / HTTP/1.1"
        line_len = len(base)
        nfields = rng.randrange(0, min(F, 6) + 1)
        if dim == "line" and L > 0:
            line_len = max(len(base), L + delta)
        if dim == "count":
            nfields = max(0, F + rng.choice([-1, 0, 1, 2, 10])) if F <= 200 else nfields
        fields = []
        under = rng.randrange(3) == 0        # names with '_' are dropped by the default header_map but still count
        for i in range(nfields):
            fields.append((b"X_F%d: v" if under and i % 2 else b"X-F%d: v") % i)
        big = None
        if dim == "size" and S > 0 and nfields > 0:
            want = max(6, S + delta)
            big = rng.randrange(nfields)
            name = b"X-B:"
            pad = rng.choice(["v", "v", "trail-sp", "trail-tab", "lead-sp", "mixed"])
            room = want - len(name) - 1
            if pad == "v" or room < 3:
                fields[big] = name + b" " + b"v" * room
            elif pad == "trail-sp":
                fields[big] = name + b" v" + b" " * (room - 1)        # optional whitespace is part of the field line the limit is about
            elif pad == "trail-tab":
                fields[big] = name + b" v" + b"\t" * (room - 1)
            elif pad == "lead-sp":
                fields[big] = name + b" " * room + b"v"
            else:
                fields[big] = name + b" " + b"v" * (room // 2) + b" \t" * ((room - room // 2) // 2) + b" " * ((room - room // 2) % 2)
        elif dim == "size" and S == 0 and nfields > 0 and "limit_request_field_size" in cfgd:
            # 0 is documented as 'unlimited header field sizes': a field far beyond the default size
            big = rng.randrange(nfields)
            fields[big] = b"X-B: " + b"v" * rng.choice([9000, 20000, 40000, 70000])
        return {"family": "limits", "cfg": cfgd, "line_len": line_len, "fields": [f.decode() for f in fields],
                "seg": rng.choice(["max", "k", "bytes1", "small"]), "body": rng.choice(["", "x" * 3000, "x" * 20000]),
                # the same body chunked: chunk data far larger than a small header cap, arriving in the same read as its size line, is
                # body, not pending protocol data
                "chunks": rng.choice([None, None, [1 << 20], [1000], [1, 4096, 7], [8192, 1]])}
    state = rng.choice(STATES)
    # keep the bound small (the parser rescans its whole buffer after every read: cost is quadratic in the cap);
    # default-sized limits only with full-size reads, and only in the thorough tier
    big = tier == "thorough" and rng.randrange(20) == 0
    if not big:
        cfgd["limit_request_fields"] = rng.choice([1, 2, 5, 20])
        cfgd["limit_request_field_size"] = rng.choice([0, 12, 30, 100, 1000]) if cfgd["limit_request_fields"] < 5 else rng.choice([12, 30, 100])
    return {"family": "buffer", "cfg": cfgd, "state": state,
            "lazy_chunk": 8192 if big else rng.choice([8192, 8192, 4096, 1000, 997, 64]),
            "variant": rng.randrange(4)}


def _cuts(seg, n, choices):
    if seg == "max" or n < 2:
        return ()
    if seg == "bytes1":
        return tuple(range(1, n)) if n < 1200 else tuple(range(1, n, 9))
    if seg == "small":
        out, p = [], 0
        while p < n:
            p += 1 + choices.choose(60)
            out.append(p)
        return tuple(c for c in out if c < n)
    return tuple(sorted({1 + choices.choose(n - 1) for _ in range(1 + choices.choose(5))}))


def run(case, choices):
    res = Result()
    log = EventLog()
    cfgd = case["cfg"]
    cfg = make_cfg(**cfgd)
    L, F, S, maxbuf = eff(cfgd)
    if case["family"] == "limits":
        base = b"GET /"
        tail = b" HTTP/1.1"
        pad = case["line_len"] - len(base) - len(tail)
        line = base + b"a" * max(0, pad) + tail
        fields = [f.encode() for f in case["fields"]]
        body = case["body"].encode()
        head = line + b"\r\n" + b"".join(f + b"\r\n" for f in fields)
        chunks = case.get("chunks") if body else None
        if chunks:
            framing_field = b"Transfer-Encoding: chunked"
            wire, p, i = b"", 0, 0
            while p < len(body):
                k = min(chunks[i % len(chunks)], len(body) - p)
                wire += b"%x\r\n" % k + body[p:p + k] + b"\r\n"
                p += k
                i += 1
            wire += b"0\r\n\r\n"
        else:
            framing_field = b"Content-Length: %d" % len(body)
            wire = body
        if body:
            head += framing_field + b"\r\n"
        data = head + b"\r\n" + wire
        if cfgd.get("proxy_protocol") and case.get("proxy_line", True):
            data = b"PROXY TCP4 1.2.3.4 5.6.7.8 11 22\r\n" + data
        nf = len(fields) + (1 if body else 0)
        over = under = True
        why = []
        n = len(line)
        if L > 0:
            if n > L:
                why.append("request line %d > %d" % (n, L))
            elif n > L - 2:
                under = False
        if nf > F:
            why.append("%d fields > %d" % (nf, F))
        if S > 0:
            for f in fields + ([framing_field] if body else []):
                if len(f) > S:
                    why.append("field of %d bytes > %d" % (len(f), S))
                elif len(f) > S - 2:
                    under = False
        must_reject = bool(why)
        must_accept = not why and under
        if cfgd.get("proxy_protocol") and L > 0 and L < 40:
            must_accept = False      # the PROXY line itself is read under the request-line limit: outside the statement
        cuts = _cuts(case["seg"], len(data), choices)
        res.faults["segmentation:" + case["seg"]] += 1
        obs, term, sock = observe(cfg, data, cuts)
        log.add("parser", "terminal", (len(obs), term[0]))
        ctx = "cfg=%r line=%d fields=%d sizes=%r seg=%s cuts=%r" % (cfgd, n, nf, sorted({len(f) for f in fields})[-3:], case["seg"], list(cuts[:6]))
        if must_reject:
            res.probes["over_limit"] += 1
            if obs:
                dim = "line" if why[0].startswith("request") else "count" if "fields" in why[0] else "size"
                res.violate("C12:limit-not-enforced:" + dim, "request over the limit (%s) reached the consumer; %s" % (why[0], ctx))
        elif must_accept:
            res.probes["within_limits"] += 1
            if (not obs or obs[0]["body"] != body) and S == 0 and "limit_request_field_size" in cfgd and any(len(f) > 8190 for f in fields) \
                    and term[:2] == ("reject", "LimitRequestHeaders"):
                res.violate("C12:unlimited-field-size-capped",
                            "limit_request_field_size=0 is documented as unlimited, yet a request whose only oversized item is one %d-byte field "
                            "is rejected (%r): the header buffer is still capped at limit_request_fields * 8192 + 4 bytes; %s"
                            % (max(len(f) for f in fields), term[:2], ctx))
            elif not obs or obs[0]["body"] != body:
                res.violate("C12:rejected-within-limits:%s" % "/".join(map(str, term[:2])),
                            "request within all limits was not served (terminal %r); %s" % (term, ctx))
        else:
            res.probes["in_guard_band"] += 1
            # whichever unit the limit is read in (with or without the line terminator), it is one reading: the decision for this
            # request cannot depend on how its bytes were cut into reads
            accepted = bool(obs)
            for kind2, cuts2 in (("max", ()), ("bytes1", tuple(range(1, min(len(data), 12000))))):
                obs2, term2, _ = observe(cfg, data, cuts2)
                if bool(obs2) != accepted:
                    res.violate("C12:limit-decision-depends-on-segmentation",
                                "a request at its limit (guard band) is %s under segmentation %s and %s under %s; %s"
                                % ("served" if accepted else "rejected %r" % (term[:2],), case["seg"],
                                   "served" if obs2 else "rejected %r" % (term2[:2],), kind2, ctx))
                    break
        res.shape = h64("limits", sorted(cfgd.items()), n, nf, [len(f) for f in fields], case["seg"], case.get("chunks"))
        res.states.add(h64("limits", must_reject, must_accept, term[0]))
        res.sample = {"family": "limits", "cfg": cfgd, "line_len": n, "fields": nf, "must_reject": must_reject,
                      "must_accept": must_accept, "terminal": list(map(str, term))}
    else:
        st = case["state"]
        v = case["variant"]
        head = b"POST /c HTTP/1.1\r\nHost: h\r\nTransfer-Encoding: chunked\r\n\r\n"
        if st == "request-line":
            data, filler = [b"GET /", b"G", b"GET / HTTP/1.1", b"POST /aa?"][v], b"a"
            if cfgd.get("proxy_protocol"):
                data = b"PROXY TCP4 1.2.3.4 5.6.7.8 11 22\r\n" + data
            bounded = L > 0
        elif st == "header-block":
            data, filler = b"GET / HTTP/1.1\r\n", [b"X-a: b\r\n", b"a:\r\n", b"X-Long: " + b"v" * 50 + b"\r\n", b"Cookie: a=b\r\n"][v]
            bounded = True
        elif st == "header-line":
            data, filler = b"GET / HTTP/1.1\r\nX-a: ", [b"v", b"ab ", b"\t", b"v,"][v]
            bounded = True
        elif st == "chunk-size":
            data, filler = head + [b"", b"5\r\nhello\r\n", b"", b"1\r\nx\r\n"][v], [b"1", b"0", b"a", b"F"][v]
            bounded = True
        elif st == "chunk-ext":
            data, filler = head + [b"5;", b"0;", b"5\r\nhello\r\n3;x=", b"0 ;"][v], [b"e", b"x=y;", b"\"", b"ab"][v]
            bounded = True
        elif st == "trailer-block":
            data, filler = head + b"0\r\n", [b"X-T: v\r\n", b"a:\r\n", b"X-Long: " + b"v" * 50 + b"\r\n", b"T: 1\r\n"][v]
            bounded = True
        else:
            data, filler = head + b"0\r\nX-T: ", [b"v", b"ab ", b"\t", b"v,"][v]
            bounded = True
        B = max(L, maxbuf) + 2 * 8192
        cap = 4 * B
        sock = CutSock(data, (), end="endless", filler=filler, meter_cap=cap, lazy_chunk=case["lazy_chunk"])
        res.faults["endless_peer:" + st] += 1
        obs, term, sock = observe(cfg, b"", sock=sock)
        consumed = sock.pos
        log.add("parser", "terminal", (len(obs), term[0], consumed > B))
        if bounded:
            if sock.capped or consumed > B:
                res.violate("C12:unbounded:" + st,
                            "lazy peer in state %s: parser consumed %d bytes (bound %d, cut at %d) without rejecting; "
                            "terminal %r cfg=%r filler=%r" % (st, consumed, B, cap, term, cfgd, filler[:12]))
            elif term[0] not in ("reject",):
                res.violate("C12:not-rejected:" + st, "lazy peer in state %s: terminal %r after %d bytes" % (st, term, consumed))
        else:
            res.probes["unlimited_by_configuration"] += 1
        res.shape = h64("buffer", sorted(cfgd.items()), st, v, case["lazy_chunk"])
        res.states.add(h64("buffer", st, term[0], bounded))
        res.sample = {"family": "buffer", "cfg": cfgd, "state": st, "filler": bsafe(filler, 20), "consumed": consumed,
                      "bound": B, "terminal": list(map(str, term))}
    res.from_log(log)
    return res


def shrink(case):
    if case["cfg"]:
        for k in list(case["cfg"]):
            c = dict(case["cfg"])
            del c[k]
            yield dict(case, cfg=c)
    if case["family"] == "limits":
        if case["seg"] != "max":
            yield dict(case, seg="max")
        if case["body"]:
            yield dict(case, body="")
        for i in range(len(case["fields"])):
            yield dict(case, fields=case["fields"][:i] + case["fields"][i + 1:])
    else:
        if case["lazy_chunk"] != 8192:
            yield dict(case, lazy_chunk=8192)
        if case["variant"]:
            yield dict(case, variant=0)
