"""C10 — reload (HUP) replaces every worker without refusing or cutting a request (W4 stub workers; W4 + real workers)."""
import signal

from simkit.core import Result, h64
from simkit.kernel import Sim, current_task
from simkit import preempt
from worlds import master, worker as W

ID = "C10"
LEVEL = "exploration"
DESIGN_REF = "DESIGN.md §4 C10"
QUICK_RUNS = 8000
THOROUGH_MIN_RUNS = 40000
BATCH = 50
CASE_WALL_S = 60.0
ISOLATE = True      # every run in a forked child: no interpreter state leaks from one simulated server to the next
RULE = ("case = the real Arbiter under a continuous seeded stream of short and long client requests with 1-3 HUPs at seeded "
        "simulated times or system-call indices of the master; the configuration source changes `workers` and a marker before "
        "each HUP; workers are scripted stubs (family stub) or the real SyncWorker / ThreadWorker (family full).  Kernel-level "
        "oracle: the master's listening open-file-description is the same object from start to end and is never closed; no "
        "connect() is ever refused; after the last HUP the pool has only workers younger than every pre-reload worker, in the "
        "new number, carrying the new configuration; old workers are asked with TERM, never KILLed; every request a worker had "
        "started reading is answered in full (sync: every accepted connection).  distinct = distinct event-trace shapes; "
        "non-trivial = at least one HUP was handled")
ASSUMPTIONS = [
    "bind address unchanged across reloads (the property's precondition)",
    "bounded liveness is evaluated graceful_timeout + 5 simulated seconds after the last HUP was handled; stub workers obey TERM "
    "after finishing the request they are serving",
    "timeout is 30 s so the inactivity scan never interferes",
    "the real GeventWorker.run() executes on a shim of the gevent primitives (simkit/gevent_shim.py)",
    "the real EventletWorker.run(), _eventlet_serve and _eventlet_stop execute on a shim of the eventlet primitives they use (simkit/eventlet_shim.py: spawn/GreenThread kill-wait-link, GreenPool, GreenSocket accept, sleep, Timeout, StopServe); real eventlet hub scheduling order is not modelled beyond 'one green thread runs until it blocks'",
]
COMPONENTS = {"real": ["Arbiter.handle_hup/reload/manage_workers/spawn_worker/kill_worker/reap_workers", "BaseApplication.reload/do_load_config",
                       "Pidfile (reload path)", "family full: SyncWorker / ThreadWorker run loops and handlers"],
              "stub": ["kernel", "family stub: worker run loop", "clients"],
              "shim": ["gevent primitives (simkit.gevent_shim)", "eventlet primitives (simkit.eventlet_shim)"], "not_covered": ["real gevent/eventlet hubs"]}


def make_case(index, rng, tier):
    fam = "full" if index % 4 == 3 else "stub"
    kind = rng.choice(["sync", "gthread", "gevent", "eventlet"]) if fam == "full" else "stub"
    hups = []
    t = 0.0
    for i in range(rng.randrange(1, 4)):
        t += round(rng.uniform(0.4, 3.0), 2)
        hups.append({"t": round(t, 2), "workers": rng.randrange(1, 4), "tick": rng.randrange(20, 300) if rng.randrange(4) == 0 else None})
    if rng.randrange(3) == 0:
        # a second HUP (with yet another configuration) lands while the reload for the previous one may still be running
        h0 = rng.choice(hups)
        hups.append({"t": round(h0["t"] + rng.choice([0.01, 0.05, 0.12, 0.2, 0.3]), 2), "workers": rng.randrange(1, 4), "tick": None})
        hups.sort(key=lambda h: h["t"])
    clients = []
    tc = 0.1
    while tc < t + 3.0 and len(clients) < 14:
        dur = rng.choice([0, 0, 0.2, 0.8, 1.5])
        clients.append({"t": round(tc, 2), "dur": dur})
        tc += rng.uniform(0.15, 0.9)
    if clients and rng.randrange(2) == 0:
        # a HUP at the very instant a client connects: the old worker's TERM can then land between its loop check and accept()
        h = rng.choice(hups)
        c = rng.choice(clients)
        c["t"] = h["t"]
        h["tick"] = None
    if fam == "full":
        # some request heads arrive in two parts: the worker has "started reading" a request long before it is complete
        for c in clients:
            if rng.randrange(4) == 0:
                c["dur"] = 0
                c["split"] = round(rng.uniform(0.2, 1.2), 2)
    workers = rng.randrange(1, 4)
    fine, fine_long = rng.choice([0, 0, 2, 3]), rng.randrange(2) == 0
    load_delay = rng.choice([0, 0, 0.3, 1.0])
    directed = False
    if fam == "full" and rng.randrange(5) == 0:
        # directed: an idle old worker, one HUP at the very instant a client connects, fine-grained scheduling with long
        # descheduling - the old worker's TERM can land between its `while self.alive` check and accept()
        workers = 1
        t0 = round(rng.uniform(0.5, 2.0), 2)
        hups = [{"t": t0, "workers": rng.randrange(1, 3), "tick": None}]
        clients = [{"t": t0, "dur": 0}] + [{"t": round(t0 + 0.2 * (i + 1), 2), "dur": 0} for i in range(rng.randrange(0, 3))]
        fine, fine_long = 2, True
        load_delay = rng.choice([0.3, 0.6, 1.0])
        directed = True
    die = {}
    if fam == "stub" and rng.randrange(3) == 0:
        # some workers die right after they were started (crash in a hook, OOM kill): also the first ones of a NEW generation, while the
        # master is still busy replacing the old one
        for _ in range(rng.randrange(1, 3)):
            die[str(rng.randrange(2, 12))] = [rng.choice([0.0, 0.0, 0.05, 0.3]), rng.choice([1, 1, 2, 255])]
    return {"family": fam, "app_load_delay": load_delay, "fine_workers_only": directed, "kind": kind, "workers": workers, "hups": hups, "clients": clients,
            "die": die,
            "wconn": rng.choice([1, 2, 10]) if kind in ("gevent", "eventlet") else 10,
            "fine": fine, "fine_long": fine_long, "bind": rng.choice(["127.0.0.1:8000", "127.0.0.1:8000", "localhost:8000", "unix:/run/g.sock"]),
            "graceful_timeout": rng.choice([2, 3, 4]), "threads": rng.randrange(1, 3),
            "buggify": {"pyticks": rng.randrange(3) == 0, "fork_child_first": rng.randrange(2) == 0, "spurious_select": rng.randrange(3) == 0,
                        "random_spawn_delay": rng.randrange(2) == 0, "short_recv": rng.randrange(4) == 0}}


def run(case, choices):
    res = Result()
    sim = Sim(choices, max_steps=200000, max_time=200.0)
    sim.buggify = dict(case["buggify"])
    if case["buggify"].get("pyticks"):
        preempt.enable()
        sim.py_ticks = True          # eval-breaker points inside gunicorn's Python code are delivery / pre-emption points too
    sim.fine_interleave = case.get("fine", 0)
    sim.fine_long = bool(case.get("fine_long"))
    if case.get("fine_workers_only"):
        sim.fine_filter = lambda t: t.proc.name.startswith("worker")        # only worker threads are pre-empted
    gt = case["graceful_timeout"]
    fam = case["family"]
    # (with early deaths a child can be reaped before it is registered: that phantom entry is only dropped by the timeout scan, so the
    #  timeout is kept short enough for the pool to be whole again when it is judged)
    cfg = {"workers": case["workers"], "timeout": 3 if case.get("die") else 30, "graceful_timeout": gt, "bind": [case.get("bind", "127.0.0.1:8000")], "proc_name": "m0",
           "pidfile": "/run/g.pid"}
    scripts = {int(a): {"die_at": d[0], "die_how": ("exit", d[1])} for a, d in (case.get("die") or {}).items()}
    w = master.World(sim, cfg, scripts=scripts)
    if str(case.get("bind", "")).startswith("unix:"):
        w.addr = case["bind"][5:]          # the socket file is part of "the listening socket": a retiring worker must not take it along
    if fam == "full":
        w.cfgsrc.update({"threads": case["threads"], "keepalive": 0, "worker_connections": case.get("wconn", 10)})
        w.use_real_workers(case["kind"])
        w.app_load_delay = case.get("app_load_delay", 0)
    m = w.start_master()
    state = {"hup_handled": [], "ofd": None, "pre_ages": [], "closed_listener": [], "killed": [], "markers": ["m0"]}

    def arb():
        return w.masters.get(m.pid)

    def observer(s, actor, kind, detail):
        if actor == m.name and kind == "handler" and detail == "SIGHUP":
            a = arb()
            if a is not None and len(a.SIG_QUEUE) < 5:
                # the master's own signal handler takes this HUP into its queue: it has to be acted upon
                state.setdefault("accepted", []).append((s.now, int(w.cfgsrc["proc_name"][1:])))
        if actor == m.name and kind == "handle" and detail == "hup":
            a = arb()
            state["pre_ages"] = [wk.age for wk in a.WORKERS.values()]
            s.probe("hup_handled")
        elif actor == m.name and kind == "handled" and detail == "hup":
            state["hup_handled"].append(s.now)
        elif kind == "listener-closed" and m.state == "running":
            state["closed_listener"].append((s.now, actor))
        elif actor == m.name and kind == "kill" and detail[1] in ("SIGKILL", "SIGABRT", "SIGIOT"):
            state["killed"].append((s.now, detail))
        elif actor == m.name and kind == "bind":
            state["binds"] = state.get("binds", 0) + 1
    sim.observers.append(observer)

    def do_hup(h, i):
        if m.state != "running" or int(signal.SIGHUP) not in m.handlers or h.get("_fired"):
            return
        h["_fired"] = True
        w.cfgsrc["workers"] = h["workers"]
        w.cfgsrc["proc_name"] = "m%d" % (i + 1)
        state["markers"].append("m%d" % (i + 1))
        state["want"] = h["workers"]
        state["want_marker"] = "m%d" % (i + 1)
        sim.fault("master_signal:hup")
        state["fired"] = state.get("fired", 0) + 1
        state["last_fired"] = sim.now
        sim.kill(m.pid, int(signal.SIGHUP))
    case = dict(case, hups=[dict(h) for h in case["hups"]])
    for i, h in enumerate(case["hups"]):
        if h["tick"] is not None:
            def arm(h=h, i=i):
                t = m.tasks[0]
                t.tick_hooks[t.ticks + h["tick"]] = lambda: do_hup(h, i)
            sim.after(h["t"], arm)
            sim.after(h["t"] + 1.2, (lambda h=h, i=i: do_hup(h, i)))      # fallback if the index is not reached soon
        else:
            sim.after(h["t"], (lambda h=h, i=i: do_hup(h, i)))
    cl = []
    for i, c in enumerate(case["clients"]):
        if fam == "stub":
            reqs = "GET /r%d HTTP/1.1\r\nHost: h\r\nX-Dur: %s\r\n\r\n" % (i, c["dur"])
        else:
            reqs = "GET %s HTTP/1.1\r\nHost: h\r\nConnection: close\r\n\r\n" % ("/sleep/%s" % c["dur"] if c["dur"] else "/a")
        if c.get("split"):
            cut = 1 + (i * 7) % (len(reqs) - 2)
            cl.append(w.add_client("c%d" % i, [["wait", c["t"]], ["connect"], ["send", reqs[:cut]], ["wait", c["split"]], ["send", reqs[cut:]],
                                               ["recv", 40.0], ["await-eof", 5.0]]))
            continue
        cl.append(w.add_client("c%d" % i, [["wait", c["t"]], ["connect"], ["send", reqs], ["recv", 40.0], ["await-eof", 5.0]]))
    t_last = max(h["t"] for h in case["hups"]) + 1.5
    horizon = t_last + gt + 5.0

    def grab():
        a = arb()
        if a is not None and a.LISTENERS and state["ofd"] is None:
            state["ofd"] = a.LISTENERS[0].sock.ofd
    sim.after(0.05, grab)
    ctx = lambda: "family=%s kind=%s workers=%d hups=%r graceful=%s clients=%r buggify=%r t=%.2f" % (
        fam, case["kind"], case["workers"], case["hups"], gt, case["clients"][:6], case["buggify"], sim.now)
    try:
        def until():
            if m.state != "running" or sim.now > horizon + 60:
                return True
            if state.get("fired", 0) < len(case["hups"]):
                return False
            ref = max(state["hup_handled"][-1] if state["hup_handled"] else 0.0, state.get("last_fired", 0.0))
            return sim.now >= ref + gt + 5.0 and all(c.done for c in cl)
        sim.run(until=until)
        if sim.crash:
            raise master.HarnessError(sim.crash)
        a = arb()
        for name, tb in sim.escaped:
            res.violate("C10:%s:exception-escaped:%s" % (fam, name.rstrip("0123456789")), "an exception escaped %s: %s; %s" % (name, tb[-400:], ctx()))
        if m.state != "running":
            res.violate("C10:%s:master-exited" % fam, "the master exited (status %r) during reload; %s" % (m.status, ctx()))
        else:
            if state["closed_listener"]:
                res.violate("C10:%s:listener-closed" % fam, "the listening socket was closed during a reload with unchanged bind: %r; %s"
                            % (state["closed_listener"][:2], ctx()))
            if state["ofd"] is not None and a.LISTENERS and a.LISTENERS[0].sock.ofd is not state["ofd"]:
                res.violate("C10:%s:listener-recreated" % fam, "after reload the master listens on a different open file description; %s" % ctx())
            if state.get("binds", 0) > 1:
                res.violate("C10:%s:listener-recreated" % fam, "the master bound the address %d times; %s" % (state["binds"], ctx()))
            if state["killed"]:
                res.violate("C10:%s:old-worker-killed" % fam, "the master sent %r during a reload (old workers must be asked with TERM); %s"
                            % (state["killed"][:2], ctx()))
            if state["hup_handled"]:
                live = master.live_children(sim, m.pid)
                ages = sorted(a.WORKERS[p.pid].age for p in live if p.pid in a.WORKERS)
                want = a.cfg.workers
                markers = sorted({a.WORKERS[p.pid].cfg.proc_name for p in live if p.pid in a.WORKERS})
                # expected values from what the master itself loaded last
                last_load = [c for c in w.config_loads if c[0] == m.pid][-1]
                acc = state.get("accepted", [])
                if acc and int(last_load[2][1:]) < acc[-1][1]:
                    res.violate("C10:%s:hup-dropped" % fam,
                                "the master took a HUP into its queue at t=%.2f when configuration m%d was in place, but the last configuration "
                                "it loaded is %s: a reload request was lost; %s" % (acc[-1][0], acc[-1][1], last_load[2], ctx()))
                if len(live) != last_load[1]:
                    res.violate("C10:%s:pool-size-after-reload" % fam, "%d live workers %.1f s after the last HUP, the reloaded configuration says %d; %s"
                                % (len(live), sim.now - state["hup_handled"][-1], last_load[1], ctx()))
                elif set(a.WORKERS) != {p.pid for p in live}:
                    res.violate("C10:%s:tracking-after-reload" % fam, "WORKERS=%r live=%r; %s" % (sorted(a.WORKERS), sorted(p.pid for p in live), ctx()))
                elif state["pre_ages"] and ages and min(ages) <= max(state["pre_ages"]):
                    res.violate("C10:%s:old-worker-remains" % fam, "worker ages %r alive after reload, pre-reload ages were %r; %s" % (ages, state["pre_ages"], ctx()))
                elif markers != [last_load[2]]:
                    res.violate("C10:%s:old-configuration" % fam, "live workers carry configuration marker(s) %r, the master loaded %r; %s"
                                % (markers, last_load[2], ctx()))
        for c in cl:
            if c.refused:
                res.violate("C10:%s:connect-refused" % fam, "client %s was refused at t=%r; %s" % (c.name, [e for e in c.log if e[1] == 'refused'][:1], ctx()))
            elif c.stream is not None and m.state == "running":
                srv = c.stream.peer
                fr = getattr(srv, "first_read", None)
                acc = getattr(srv, "accepted_by", None)
                ok = c.responses and c.responses[0]["status"] == 200 and c.responses[0]["complete"]
                if not ok and (fr is not None or (acc is not None and case["kind"] in ("sync", "stub"))):
                    res.violate("C10:%s:%s:request-cut" % (fam, case["kind"]),
                                "client %s: its connection was accepted by pid %r (first byte read at %r) but the response is %r; log=%r; %s"
                                % (c.name, acc, fr, [(r["status"], r["complete"], r.get("rst")) for r in c.responses], c.log[-5:], ctx()))
                elif not ok and acc is not None:
                    # gthread: accepted but never read before the old worker left - outside the statement (which demands
                    # 'started reading' for concurrent workers and 'accepted' only for sync)
                    res.probes["gthread_accepted_unread_dropped"] += 1
                elif not ok and acc is None and c.eof_at is None and not c.responses[0].get("rst") if c.responses else False:
                    res.violate("C10:%s:%s:request-never-served" % (fam, case["kind"]),
                                "client %s connected at %r and was never served; log=%r; %s" % (c.name, c.connected_at, c.log[-5:], ctx()))
        res.nontrivial = bool(state["hup_handled"])
        res.sim_s = sim.now
        res.faults.update(sim.faults)
        res.probes.update(sim.probes)
        res.states.add(h64(fam, case["kind"], len(state["hup_handled"]), len(master.live_children(sim, m.pid)), m.state))
        res.from_log(sim.log)
        res.sample = {"family": fam, "kind": case["kind"], "hups": case["hups"], "clients": len(cl),
                      "answered": sum(1 for c in cl if c.responses and c.responses[0]["complete"]), "hups_handled": len(state["hup_handled"]),
                      "sim_seconds": round(sim.now, 2)}
    finally:
        sim.shutdown()
    return res


def shrink(case):
    for i in range(len(case["hups"])):
        if len(case["hups"]) > 1:
            yield dict(case, hups=case["hups"][:i] + case["hups"][i + 1:])
    for i in range(len(case["clients"])):
        yield dict(case, clients=case["clients"][:i] + case["clients"][i + 1:])
    for k, v in case["buggify"].items():
        if v:
            yield dict(case, buggify=dict(case["buggify"], **{k: False}))
    if case.get("fine"):
        yield dict(case, fine=0)
