"""C08 — only trusted peers can set scheme, script name or client address (W2; configurations x histories)."""
from simkit.core import Result, EventLog, h64, bsafe
from oracles import trust_ref
from worlds import conn

ID = "C08"
LEVEL = "exploration"
DESIGN_REF = "DESIGN.md §4 C08"
QUICK_RUNS = 200000
THOROUGH_MIN_RUNS = 300000
BATCH = 2000
CASE_WALL_S = 20.0
RULE = ("case = a keep-alive connection of 1-3 requests from a peer in {listed IP, unlisted IP, IPv6, loopback, unix} x "
        "(forwarded_allow_ips, forwarder_headers, header_map in {drop, refuse}, secure_scheme_headers, proxy_protocol, "
        "proxy_allow_ips) x header sets with hyphen/underscore/case variants, duplicates and conflicting scheme headers "
        "(every value unique so that each environ value is attributable to the headers that produced it) x optional "
        "PROXY line, served by the real handle() of all three families; the environ each application call saw is compared "
        "with the reference mapping, including the history clause (PROXY-declared address on every request of the "
        "connection).  distinct = distinct (peer, cfg, connection bytes, family) by hash; non-trivial = >= 1 application call")
ASSUMPTIONS = [
    "case variants of one header name are the same name; names differing in hyphen/underscore are 'differently spelled'",
    "names listed in forwarder_headers coming from a trusted peer are the documented exception to the injectivity rule",
    "gunicorn may always refuse a request; the oracle judges only environs that reached the application, plus the two "
    "documented refusals (header_map=refuse with an unmappable name, conflicting scheme headers from a trusted peer)",
    "gthread keep-alive continuation is driven by a single-threaded connection driver that calls the real "
    "ThreadWorker.handle(conn) again on the same TConn (whose parser persists), as the real main loop does",
]
COMPONENTS = {"real": ["Message.parse_headers (allow-list gate, underscore policy)", "Request.proxy_protocol/parse_proxy_protocol",
                       "gunicorn.http.wsgi.create/proxy_environ", "AsyncWorker.handle keep-alive loop", "ThreadWorker.handle",
                       "SyncWorker.handle"],
              "stub": ["peer + network (SimSock)", "application (records environ)", "gthread poller/executor (connection driver)"]}

PEERS = [["10.0.0.9", 40001], ["192.168.1.7", 40002], ["::1", 40003], ["127.0.0.1", 40004], "",
         ["::1", 40005, 0, 0], ["2001:db8::7", 40006, 0, 0], ["fe80::1", 40007, 0, 2]]      # AF_INET6 peers are 4-tuples
ALLOW = [["127.0.0.1", "::1"], ["10.0.0.9"], ["*"], ["10.0.0.1", "10.0.0.9"], []]
FWD = [["SCRIPT_NAME", "PATH_INFO"], ["SCRIPT_NAME", "REMOTE_USER"], ["*"], ["X_FORWARDED_FOR"], []]
SSH = [{"X-FORWARDED-PROTOCOL": "ssl", "X-FORWARDED-PROTO": "https", "X-FORWARDED-SSL": "on"},
       {"X-FORWARDED-PROTO": "https"}, {"X-SECURE": "yes", "X-FORWARDED-SSL": "on"},
       # a key spelled with underscores: the field that matches it is still subject to the underscore policy (drop / refuse)
       {"X_FORWARDED_PROTO": "https"}, {"X_FORWARDED_PROTO": "https", "X-FORWARDED-SSL": "on"}]
NAMES = ["X-Forwarded-Proto", "X_Forwarded_Proto", "x-forwarded-proto", "X-Forwarded-Ssl", "X-Forwarded-Protocol",
         "X-Secure", "Script-Name", "Script_Name", "SCRIPT_NAME", "Path_Info", "X-Forwarded-For", "X_Forwarded_For",
         "X-Foo", "X_Foo", "x-foo", "X-FOO", "Remote_User", "X-Foo-Bar", "X_Foo-Bar", "X-Foo_Bar", "X_Forwarded-For",
         "Remote-Addr", "Remote_Addr", "X-Real-Ip", "Host"]
SCHEME_VALS = {"X-FORWARDED-PROTO": ["https", "http", "HTTPS", "https "], "X-FORWARDED-SSL": ["on", "off"],
               "X-FORWARDED-PROTOCOL": ["ssl", "tls"], "X-SECURE": ["yes", "no"]}
PROXY_DECL = ["203.0.113.5", 5555]


def make_case(index, rng, tier):
    cfg = {"forwarded_allow_ips": rng.choice(ALLOW), "forwarder_headers": rng.choice(FWD),
           "header_map": rng.choice(["drop", "drop", "refuse"]), "secure_scheme_headers": rng.choice(SSH),
           "proxy_protocol": rng.randrange(3) == 0, "proxy_allow_ips": rng.choice(ALLOW)}
    nreq = rng.randrange(1, 4)
    reqs = []
    uid = 0
    for k in range(nreq):
        hs = []
        for _ in range(rng.randrange(0, 6)):
            n = rng.choice(NAMES)
            up = n.upper()
            if up in SCHEME_VALS:
                v = rng.choice(SCHEME_VALS[up])
            elif up.replace("-", "_") == "SCRIPT_NAME":
                v = rng.choice(["/app", "/app", "/other", ""])
            elif up == "HOST":
                v = "h.example"
            else:
                uid += 1
                v = "v%d" % uid
            hs.append([n, v])
        reqs.append(hs)
    proxy_line = None
    if rng.randrange(3) == 0 or (cfg["proxy_protocol"] and rng.randrange(3)):
        proxy_line = "PROXY TCP4 %s 10.0.0.1 %d 80" % tuple(PROXY_DECL)
    proxy_mid = None
    if nreq > 1 and rng.randrange(5) == 0:
        proxy_mid = {"before": rng.randrange(1, nreq), "line": "PROXY TCP4 127.0.0.1 10.0.0.1 1111 80"}
    prev = None
    if rng.randrange(3) == 0:
        # history: the same worker served another connection before this one (another peer, possibly with a PROXY line of its own);
        # nothing of it may show in this connection's environment
        ppeer = rng.choice(PEERS)
        listed = [p for p in PEERS if p != "" and p[0] in cfg["proxy_allow_ips"]]
        if listed and rng.randrange(2):
            ppeer = rng.choice(listed)           # a peer whose PROXY line is accepted
        prev = {"peer": ppeer, "proxy_line": ("PROXY TCP4 198.51.100.9 10.0.0.1 7777 80" if cfg["proxy_protocol"] and rng.randrange(4) else None),
                "reqs": [[["X-Forwarded-Proto", "https"], ["Script-Name", "/app"], ["X-Prev", "p1"]]] * rng.randrange(1, 3)}
        if rng.randrange(2):
            proxy_line = None
    return {"cfg": cfg, "peer": rng.choice(PEERS), "reqs": reqs, "proxy_line": proxy_line, "proxy_mid": proxy_mid, "prev": prev,
            "family": rng.choice(conn.FAMILIES), "keepalive": rng.choice([2, 2, 0])}


PROG = [{"status": "200 OK", "headers": [["Content-Length", "2"]], "kind": "list", "chunks": ["ok"], "read_body": "none"}]


def run(case, choices):
    res = Result()
    log = EventLog()
    conn.reset_run()
    fam = case["family"]
    c = case["cfg"]
    cfg = conn.make_cfg(keepalive=case["keepalive"], forwarded_allow_ips=",".join(c["forwarded_allow_ips"]),
                        forwarder_headers=",".join(c["forwarder_headers"]), header_map=c["header_map"],
                        secure_scheme_headers=c["secure_scheme_headers"], proxy_protocol=c["proxy_protocol"],
                        proxy_allow_ips=",".join(c["proxy_allow_ips"]))
    state = conn.AppState()
    worker = conn.make_worker(fam, cfg, conn.make_app(PROG, state))
    prev = case.get("prev")
    if prev:
        pparts = [prev["proxy_line"] + "\r\n"] if prev["proxy_line"] else []
        for hs in prev["reqs"]:
            pparts.append("GET /app/page HTTP/1.1\r\n" + "".join("%s: %s\r\n" % (n, v) for n, v in hs) + "\r\n")
        psock = conn.SimSock("".join(pparts).encode("latin-1"), (), peer=tuple(prev["peer"]) if prev["peer"] != "" else "")
        conn.serve(worker, fam, psock)
        res.probes["served_after_another_connection"] += 1
    calls0 = state.calls
    env0 = len(state.environs)
    peer = tuple(case["peer"]) if case["peer"] != "" else ""
    parts = []
    if case["proxy_line"]:
        parts.append(case["proxy_line"] + "\r\n")
    mid = case.get("proxy_mid")
    for k_, hs in enumerate(case["reqs"]):
        if mid and mid["before"] == k_:
            parts.append(mid["line"] + "\r\n")
        parts.append("GET /app/page HTTP/1.1\r\n" + "".join("%s: %s\r\n" % (n, v) for n, v in hs) + "\r\n")
    data = "".join(parts).encode("latin-1")
    sock = conn.SimSock(data, (), peer=peer)
    esc = conn.serve(worker, fam, sock)
    ncalls = state.calls - calls0
    log.add(fam, "served", (ncalls, len(sock.wire)))
    ctx = lambda: "family=%s peer=%r cfg=%r proxy_line=%r reqs=%r calls=%d prev=%r wire=%s" % (
        fam, peer, c, case["proxy_line"], case["reqs"], ncalls, prev, bsafe(bytes(sock.wire), 120))
    if esc is not None:
        res.violate("C08:%s:exception-escaped" % fam, "handle() let %r escape; %s" % (esc, ctx()))
    proxy_ok = bool(c["proxy_protocol"] and case["proxy_line"] and trust_ref.ip_allowed(peer, c["proxy_allow_ips"]))
    if case["proxy_line"] and c["proxy_protocol"] and not proxy_ok and ncalls > 0:
        res.violate("C08:%s:proxy-line:untrusted" % fam,
                    "a PROXY line from a peer outside proxy_allow_ips was not refused; %s" % ctx())
    if case["proxy_line"] and not c["proxy_protocol"] and ncalls > 0:
        res.violate("C08:%s:proxy-line:disabled" % fam, "a PROXY line was accepted although proxy_protocol is off; %s" % ctx())
    if mid and ncalls > mid["before"]:
        res.violate("C08:%s:proxy-line:mid-connection" % fam,
                    "a PROXY line in front of request %d of the connection (only the first request may carry one) did not end the "
                    "connection: %d requests reached the application; %s" % (mid["before"], ncalls, ctx()))
    decl = (PROXY_DECL[0], PROXY_DECL[1]) if proxy_ok else None
    if proxy_ok:
        res.probes["proxy_line_accepted"] += 1
    for k, env in enumerate(state.environs[env0:]):
        hs = [tuple(h) for h in case["reqs"][k]]
        ex = trust_ref.expect(peer, c, hs, decl)
        tr = "trusted" if ex["trusted"] else "untrusted"
        if ex["must_refuse"]:
            res.violate("C08:%s:underscore-not-refused:%s:%d" % (fam, tr, k),
                        "header_map=refuse but request %d with an unmappable header name reached the application; %s" % (k, ctx()))
        if ex["scheme_conflict"]:
            res.violate("C08:%s:scheme-conflict-accepted:%s:%d" % (fam, tr, k),
                        "conflicting secure-scheme headers from a trusted peer reached the application; %s" % ctx())
        elif env.get("wsgi.url_scheme") != ex["scheme"]:
            res.violate("C08:%s:wsgi.url_scheme:%s:%d" % (fam, tr, k),
                        "request %d: wsgi.url_scheme=%r, reference %r (peer %s); %s" % (k, env.get("wsgi.url_scheme"), ex["scheme"], tr, ctx()))
        if ex["script_name_mismatch"]:
            res.violate("C08:%s:script-name-mismatch-accepted:%s:%d" % (fam, tr, k), "SCRIPT_NAME not a prefix of the path but the request was served; %s" % ctx())
        elif env.get("SCRIPT_NAME") != ex["script_name"] or env.get("SCRIPT_NAME", "") + env.get("PATH_INFO", "") != "/app/page":
            res.violate("C08:%s:SCRIPT_NAME:%s:%d" % (fam, tr, k),
                        "request %d: SCRIPT_NAME=%r PATH_INFO=%r, reference SCRIPT_NAME=%r; %s"
                        % (k, env.get("SCRIPT_NAME"), env.get("PATH_INFO"), ex["script_name"], ctx()))
        if env.get("REMOTE_ADDR") != ex["remote_addr"] or (ex["remote_port"] is not None and env.get("REMOTE_PORT") != ex["remote_port"]):
            res.violate("C08:%s:REMOTE_ADDR:%s:%d" % (fam, "proxy-declared" if decl else "peer", min(k, 1)),
                        "request %d of the connection: REMOTE_ADDR=%r REMOTE_PORT=%r, reference %r %r (%s); %s"
                        % (k, env.get("REMOTE_ADDR"), env.get("REMOTE_PORT"), ex["remote_addr"], ex["remote_port"],
                           "PROXY-declared client address applies to every request of the connection" if decl else "peer address", ctx()))
        if decl and k > 0:
            res.probes["proxy_carry_over_checked"] += 1
        # injectivity / trust of every HTTP_* variable
        by_val = {}
        for n, v, is_fwd in ex["may_appear"]:
            by_val.setdefault(v.strip(" \t"), []).append((n, is_fwd))
        for key, val in env.items():
            if not key.startswith("HTTP_") or not isinstance(val, str):
                continue
            names = set()
            fwd_only = True
            for piece in val.split(","):
                piece = piece.strip(" \t")
                srcs = [n for n, v in hs if v.strip(" \t") == piece and "HTTP_" + n.upper().replace("-", "_") == key]
                allowed = [n for n, f in by_val.get(piece, []) if "HTTP_" + n.upper().replace("-", "_") == key]
                if srcs and not allowed:
                    res.violate("C08:%s:untrusted-underscore-mapped:%s:%d" % (fam, tr, k),
                                "request %d: %s=%r carries a value from header %r which may not be mapped (peer %s, header_map=%s); %s"
                                % (k, key, val, srcs[0], tr, c["header_map"], ctx()))
                for n, f in by_val.get(piece, []):
                    if "HTTP_" + n.upper().replace("-", "_") == key:
                        names.add(n.lower())
                        fwd_only = fwd_only and f
            if len(names) > 1 and not (ex["trusted"] and any(("_" in n) for n in names)):
                res.violate("C08:%s:ambiguous-mapping:%s:%d" % (fam, tr, k),
                            "request %d: %s=%r merges differently spelled header names %r; %s" % (k, key, val, sorted(names), ctx()))
    res.nontrivial = ncalls > 0
    res.from_log(log)
    res.shape = h64(data, peer, prev, sorted((k, repr(v)) for k, v in c.items()), fam)
    res.states.add(h64(fam, ncalls, proxy_ok, trust_ref.ip_allowed(peer, c["forwarded_allow_ips"]), c["header_map"]))
    res.sample = {"family": fam, "peer": case["peer"], "cfg": c, "proxy_line": case["proxy_line"], "requests": case["reqs"][:2],
                  "application_calls": ncalls, "prev": prev}
    return res


def shrink(case):
    n = len(case["reqs"])
    for i in range(n - 1, -1, -1):
        if n > 1:
            yield dict(case, reqs=case["reqs"][:i] + case["reqs"][i + 1:])
    for i, hs in enumerate(case["reqs"]):
        for j in range(len(hs)):
            yield dict(case, reqs=case["reqs"][:i] + [hs[:j] + hs[j + 1:]] + case["reqs"][i + 1:])
    if case["proxy_line"]:
        yield dict(case, proxy_line=None)
    if case.get("proxy_mid"):
        yield dict(case, proxy_mid=None)
