#!/venv/bin/python
"""selftest/determinism.py [N] [ID...] — large-sample determinism proof.

For every check: the first N runs (default 200) are executed twice in fresh interpreters — under two PYTHONHASHSEED
values and, for the pool path, two worker counts — and the event-log digests must be identical.  Exit 0 iff all agree.
Writes selftest/determinism_report.json.
"""
import json
import os
import subprocess
import sys
import time

ROOT = os.path.dirname(os.path.dirname(os.path.abspath(__file__)))
IDS = "C01 C02 C03 C04 C05 C06 C07 C08 C09 C10 C11 C12 C13 C14 C17 C18 C19 C20".split()


def digests(cid, n, hashseed, seed):
    env = dict(os.environ, VERIF_HASHSEED=str(hashseed), VERIF_SEED=str(seed), VERIF_NO_DET="1")
    procs = []
    step = max(1, n // 8)
    for a in range(0, n, step):
        procs.append(subprocess.Popen([os.path.join(ROOT, "bin", "check"), cid, "--digests", "%d:%d" % (a, min(step, n - a))],
                                      env=env, stdout=subprocess.PIPE, stderr=subprocess.DEVNULL, text=True))
    out = {}
    for p in procs:
        o, _ = p.communicate(timeout=3600)
        for line in o.splitlines():
            if line.startswith("DIGESTS "):
                out.update(json.loads(line[8:]))
    return out


def main():
    args = sys.argv[1:]
    n = int(args[0]) if args and args[0].isdigit() else 200
    ids = [a for a in args if not a.isdigit()] or IDS
    report = {"runs_per_check": n, "checks": {}, "at": time.strftime("%Y-%m-%d %H:%M:%S")}
    bad = 0
    for cid in ids:
        t0 = time.time()
        a = digests(cid, n, 0, 0)
        b = digests(cid, n, 987654, 0)
        diff = [k for k in a if a[k] != b.get(k)]
        errs = [k for k, v in a.items() if str(v).startswith("ERR")]
        ok = not diff and not errs and len(a) == n
        bad += 0 if ok else 1
        report["checks"][cid] = {"runs": len(a), "diverged": diff[:10], "errors": errs[:10], "ok": ok, "wall_s": round(time.time() - t0, 1)}
        print("%s runs=%d diverged=%d errors=%d %s (%.1fs)" % (cid, len(a), len(diff), len(errs), "ok" if ok else "FAIL", time.time() - t0))
    with open(os.path.join(ROOT, "selftest", "determinism_report.json"), "w") as f:
        json.dump(report, f, indent=1)
    return 1 if bad else 0


if __name__ == "__main__":
    sys.exit(main())
