#!/venv/bin/python
"""selftest/mutation_audit.py [name-filter] — sensitivity audit.

Applies every hand-written mutant (selftest/mutants/<prop>_*.patch, -p1 unified diffs) and every independently produced change
(seeded/<ID>-mN/patch.diff) to a scratch git worktree of /repo's HEAD under /var/tmp (removed afterwards), runs the quick check of
the property it targets with GV_REPO pointing there, and records whether the check raised a VIOLATION (exit 1).  The unmodified tree
must pass (that is what the registered quick commands establish).  Writes selftest/mutation_report.json; exit 0 iff all are caught.
"""
import glob
import json
import os
import shutil
import subprocess
import sys
import time

ROOT = os.path.dirname(os.path.dirname(os.path.abspath(__file__)))


def sh(cmd, cwd=None, env=None, timeout=3000):
    p = subprocess.run(cmd, shell=True, cwd=cwd, env=env, capture_output=True, text=True, timeout=timeout)
    return p.returncode, p.stdout + p.stderr


def main():
    flt = sys.argv[1] if len(sys.argv) > 1 else ""
    items = []
    for p in sorted(glob.glob(os.path.join(ROOT, "selftest", "mutants", "*.patch"))):
        name = os.path.basename(p)[:-6]
        items.append((name, p, name.split("_")[0].upper(), "patch -p1 -s"))
    for d in sorted(glob.glob(os.path.join(ROOT, "seeded", "*"))):
        name = os.path.basename(d)
        items.append(("seeded/" + name, os.path.join(d, "patch.diff"), name.split("-")[0], "git apply"))
    items = [i for i in items if flt in i[0]]
    part = os.environ.get("AUDIT_PART")          # "k/n": every n-th item starting at k (several audits side by side, merged afterwards)
    if part:
        k_, n_ = map(int, part.split("/"))
        items = items[k_::n_]
    report = {"at": time.strftime("%Y-%m-%d %H:%M:%S"), "mutants": {}}
    missed = 0
    for name, patch, cid, how in items:
        wt = "/var/tmp/gv-audit-%d" % os.getpid()
        sh("git -C /repo worktree add -q --detach %s HEAD" % wt)
        try:
            rc, o = sh("%s < %s" % (how, patch) if how.startswith("patch") else "git apply %s" % patch, cwd=wt)
            if rc:
                report["mutants"][name] = {"property": cid, "applies": False, "caught": None, "note": o[-200:]}
                print("%-40s %s APPLY-FAILED" % (name, cid))
                missed += 1
                continue
            env = dict(os.environ, GV_REPO=wt, GV_EVIDENCE_DIR=wt + "/_ev", VERIF_NO_DET="1", VERIF_STOP_ON_VIOLATION="1")
            t0 = time.time()
            rc, o = sh("%s/bin/check %s --tier quick" % (ROOT, cid), cwd=ROOT, env=env)
            keys = [l.strip()[4:].split(" ")[0] for l in o.splitlines() if l.strip().startswith("key=")]
            caught = rc == 1
            known_miss = None
            mp = os.path.join(os.path.dirname(patch), "meta.json")
            if not caught and os.path.exists(mp):
                known_miss = json.load(open(mp)).get("not_detectable_reason")
            missed += 0 if (caught or known_miss) else 1
            report["mutants"][name] = {"property": cid, "applies": True, "caught": caught, "rc": rc, "keys": keys[:4],
                                       "wall_s": round(time.time() - t0, 1)}
            if known_miss:
                report["mutants"][name]["outside_the_simulated_worlds"] = known_miss
            print("%-40s %s %s %s" % (name, cid, "caught" if caught else ("NOT-DETECTABLE (listed) rc=%d" % rc if known_miss else "MISSED rc=%d" % rc), keys[:2]))
        finally:
            sh("git -C /repo worktree remove --force %s" % wt)
            shutil.rmtree(wt, ignore_errors=True)
    report["total"] = len(items)
    report["missed"] = missed
    if not flt:
        with open(os.path.join(ROOT, "selftest", "mutation_report%s.json" % (".part%s" % part.split("/")[0] if part else "")), "w") as f:
            json.dump(report, f, indent=1)
    print("total=%d missed=%d" % (len(items), missed))
    return 1 if missed else 0


if __name__ == "__main__":
    sys.exit(main())
