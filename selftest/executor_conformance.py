#!/venv/bin/python
"""selftest/executor_conformance.py — the contract of concurrent.futures that the threaded worker relies on, checked twice:

    against the REAL ThreadPoolExecutor / Future / wait (real threads, real time), and
    against simkit.facade.SimExecutor / SimFuture / FakeFutures.wait inside a simulation,

with the same scenario code.  Every scenario returns a list of observations that do not depend on thread timing (sets, booleans, exception
class names, "caller"/"worker" for the thread a callback ran in); the two lists must be equal.  Exit 0 if all scenarios agree, 1 otherwise.
Writes selftest/executor_conformance_report.json.
"""
import json
import os
import sys
import threading
import time

ROOT = os.path.dirname(os.path.dirname(os.path.abspath(__file__)))
sys.path[0:1] = [os.environ.get("GV_REPO", "/repo"), ROOT]


# ------------------------------------------------------------------ the two back ends
class RealAPI:
    name = "real"

    def __init__(self):
        import concurrent.futures as cf
        self.cf = cf
        self.main = threading.get_ident()

    def executor(self, n):
        return self.cf.ThreadPoolExecutor(max_workers=n)

    def gate(self):
        return threading.Event()

    def open(self, g):
        g.set()

    def pass_gate(self, g):
        g.wait(10)

    def settle(self):
        time.sleep(0.08)

    def wait(self, fs, timeout=None, return_when="ALL_COMPLETED"):
        return self.cf.wait(fs, timeout=timeout, return_when=return_when)

    def where(self):
        return "caller" if threading.get_ident() == self.main else "worker"

    def cancelled_error(self):
        return self.cf.CancelledError


class SimAPI:
    name = "sim"

    def __init__(self, sim, futures, main_task):
        self.sim, self.futures, self.main = sim, futures, main_task

    def executor(self, n):
        return self.futures.ThreadPoolExecutor(max_workers=n)

    def gate(self):
        return {"open": False}

    def open(self, g):
        g["open"] = True

    def pass_gate(self, g):
        self.sim.block(lambda: g["open"], 10, False, False)

    def settle(self):
        self.sim.block(lambda: False, 0.08, False, False)

    def wait(self, fs, timeout=None, return_when="ALL_COMPLETED"):
        return self.futures.wait(fs, timeout=timeout, return_when=return_when)

    def where(self):
        from simkit.kernel import current_task
        return "caller" if current_task() is self.main else "worker"

    def cancelled_error(self):
        return self.futures.CancelledError


# ------------------------------------------------------------------ scenarios
def sc_capacity_fifo(api):
    """max_workers bounds concurrency; queued work starts in submission order as threads free up."""
    ex = api.executor(2)
    gates = [api.gate() for _ in range(4)]
    started, ended = [], []

    def job(i):
        started.append(i)
        api.pass_gate(gates[i])
        ended.append(i)
        return i * 10
    fs = [ex.submit(job, i) for i in range(4)]
    obs = []
    api.settle()
    obs.append(("started-after-submit", sorted(started)))
    obs.append(("states", [(f.running(), f.done()) for f in fs]))
    api.open(gates[0])
    api.settle()
    obs.append(("started-after-first-finished", sorted(started)))
    obs.append(("third-started-before-fourth", started.index(2) < len(started) and 3 not in started))
    obs.append(("first-result", fs[0].result(1)))
    for g in gates[1:]:
        api.open(g)
    r = api.wait(fs, timeout=5)
    obs.append(("all-done", len(r.done), len(r.not_done)))
    obs.append(("results", [f.result(0) for f in fs]))
    ex.shutdown(wait=True)
    return obs


def sc_callbacks(api):
    """done-callbacks: in the worker thread when the future finishes later, in the caller when it is already done; exceptions are swallowed."""
    ex = api.executor(1)
    g = api.gate()
    calls = []

    def job():
        api.pass_gate(g)
        return "r"
    f = ex.submit(job)
    api.settle()
    f.add_done_callback(lambda fut: calls.append(("late", api.where(), fut.done())))
    f.add_done_callback(lambda fut: 1 / 0)
    f.add_done_callback(lambda fut: calls.append(("after-raising-callback", api.where())))
    api.open(g)
    api.wait([f], timeout=5)
    api.settle()
    f.add_done_callback(lambda fut: calls.append(("already-done", api.where())))
    ex.shutdown(wait=True)
    return [("calls", calls)]


def sc_cancel(api):
    """a queued future can be cancelled (callbacks run at once, in the caller; the work never runs); a running one cannot."""
    ex = api.executor(1)
    g = api.gate()
    ran = []
    calls = []

    def blocker():
        api.pass_gate(g)
        return "b"

    def never():
        ran.append("never")
    f1 = ex.submit(blocker)
    f2 = ex.submit(never)
    f2.add_done_callback(lambda fut: calls.append(("cb", api.where(), fut.cancelled())))
    api.settle()
    obs = [("cancel-running", f1.cancel()), ("cancel-queued", f2.cancel()), ("cancel-again", f2.cancel()), ("cancelled", f2.cancelled(), f2.done()),
           ("callbacks", list(calls))]
    try:
        f2.result(0)
        obs.append(("result", "returned"))
    except BaseException as e:
        obs.append(("result", type(e).__name__ if not isinstance(e, api.cancelled_error()) else "CancelledError"))
    r = api.wait([f1, f2], timeout=0, return_when="FIRST_COMPLETED")
    obs.append(("wait-first-completed-sees-cancelled", f2 in r.done, f1 in r.not_done))
    api.open(g)
    api.wait([f1], timeout=5)
    api.settle()
    obs.append(("cancelled-work-ran", list(ran)))
    obs.append(("cancel-finished", f1.cancel()))
    ex.shutdown(wait=True)
    return obs


def sc_shutdown_nowait(api):
    """shutdown(wait=False) returns at once, refuses new work, and the work already queued is still carried out."""
    ex = api.executor(1)
    g = api.gate()
    ran = []

    def blocker():
        api.pass_gate(g)
        ran.append("blocker")

    def queued(i):
        ran.append(i)
        return i
    f0 = ex.submit(blocker)
    fq = [ex.submit(queued, i) for i in range(3)]
    api.settle()
    ex.shutdown(wait=False)
    obs = [("after-shutdown-done", [f.done() for f in [f0] + fq])]
    try:
        ex.submit(queued, 9)
        obs.append(("submit-after-shutdown", "accepted"))
    except RuntimeError:
        obs.append(("submit-after-shutdown", "RuntimeError"))
    api.open(g)
    r = api.wait([f0] + fq, timeout=5)
    obs.append(("queued-work-still-ran", list(ran), len(r.not_done)))
    return obs


def sc_shutdown_cancel(api):
    """shutdown(wait=False, cancel_futures=True): queued futures are cancelled, the running one finishes."""
    ex = api.executor(1)
    g = api.gate()
    ran = []

    def blocker():
        api.pass_gate(g)
        ran.append("blocker")
        return 1
    f0 = ex.submit(blocker)
    fq = [ex.submit(ran.append, i) for i in range(2)]
    api.settle()
    ex.shutdown(wait=False, cancel_futures=True)
    obs = [("queued-cancelled", [f.cancelled() for f in fq]), ("running-cancelled", f0.cancelled())]
    r = api.wait(fq, timeout=0.05)
    obs.append(("wait-on-futures-cancelled-by-shutdown", len(r.done), len(r.not_done), [f.done() for f in fq]))
    api.open(g)
    api.wait([f0], timeout=5)
    api.settle()
    obs.append(("ran", list(ran), f0.result(0)))
    return obs


def sc_wait(api):
    """wait(): timeout=0 polls, a timeout returns the unfinished ones, FIRST_COMPLETED returns on the first, empty input returns at once."""
    ex = api.executor(2)
    g1, g2 = api.gate(), api.gate()

    def job(g, v):
        api.pass_gate(g)
        return v
    f1, f2 = ex.submit(job, g1, 1), ex.submit(job, g2, 2)
    api.settle()
    obs = []
    r = api.wait([f1, f2], timeout=0, return_when="FIRST_COMPLETED")
    obs.append(("poll-none-done", len(r.done), len(r.not_done)))
    r = api.wait([f1, f2], timeout=0.05)
    obs.append(("timeout-none-done", len(r.done), len(r.not_done)))
    api.open(g1)
    r = api.wait([f1, f2], timeout=5, return_when="FIRST_COMPLETED")
    obs.append(("first-completed", f1 in r.done, f2 in r.not_done))
    r = api.wait([], timeout=0, return_when="FIRST_COMPLETED")
    obs.append(("empty", len(r.done), len(r.not_done)))
    r = api.wait([], timeout=1)
    obs.append(("empty-all", len(r.done), len(r.not_done)))
    api.open(g2)
    r = api.wait([f1, f2], timeout=5)
    obs.append(("all", len(r.done), len(r.not_done)))
    ex.shutdown(wait=True)
    return obs


def sc_exception(api):
    """an exception raised by the work is stored, re-raised by result(), and the pool thread survives."""
    ex = api.executor(1)

    def bad():
        raise KeyError("k")
    f = ex.submit(bad)
    f2 = ex.submit(lambda: "ok")
    api.wait([f, f2], timeout=5)
    obs = [("exception", type(f.exception(0)).__name__)]
    try:
        f.result(0)
    except KeyError:
        obs.append(("result-raises", True))
    obs.append(("next-work-ran", f2.result(0)))
    ex.shutdown(wait=True)
    return obs


SCENARIOS = [sc_capacity_fifo, sc_callbacks, sc_cancel, sc_shutdown_nowait, sc_shutdown_cancel, sc_wait, sc_exception]


def run_real():
    api = RealAPI()
    return {sc.__name__: sc(api) for sc in SCENARIOS}


def run_sim():
    from simkit.core import Choices
    from simkit.kernel import Sim, current_task
    from simkit import facade
    out = {}
    for sc in SCENARIOS:
        sim = Sim(Choices(seed=1), max_steps=100000, max_time=100.0)
        facade.SIM["sim"] = sim
        box = {}

        def main(sc=sc, sim=sim, box=box):
            api = SimAPI(sim, facade.FakeFutures(), current_task())
            box["obs"] = sc(api)
        sim.spawn_proc(main, "p", 1, {"PWD": "/"})
        try:
            sim.run()
            if sim.crash:
                box["obs"] = [("CRASH", sim.crash)]
            if sim.escaped:
                box.setdefault("obs", []).append(("ESCAPED", [e[1][-200:] for e in sim.escaped]))
        finally:
            sim.shutdown()
        out[sc.__name__] = box.get("obs", [("NO-RESULT",)])
    return out


def main():
    real = run_real()
    sim = run_sim()
    bad = 0
    report = {}
    for sc in SCENARIOS:
        n = sc.__name__
        same = json.dumps(real[n], default=repr) == json.dumps(sim[n], default=repr)
        report[n] = {"doc": sc.__doc__.strip(), "agree": same, "real": json.loads(json.dumps(real[n], default=repr)),
                     "sim": json.loads(json.dumps(sim[n], default=repr))}
        print("%-22s %s" % (n, "agree" if same else "DIFFER"))
        if not same:
            bad += 1
            print("   real:", real[n])
            print("   sim :", sim[n])
    with open(os.path.join(ROOT, "selftest", "executor_conformance_report.json"), "w") as f:
        json.dump({"scenarios": report, "disagreements": bad}, f, indent=1)
    return 1 if bad else 0


if __name__ == "__main__":
    sys.exit(main())
