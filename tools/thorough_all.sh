#!/bin/bash
# tools/thorough_all.sh [budget-seconds] [ID...] — run every thorough check once (time-boxed) and print one line per check.
cd "$(dirname "${BASH_SOURCE[0]}")/.."
budget=${1:-600}; shift
ids=${@:-C01 C02 C03 C04 C05 C06 C07 C08 C09 C10 C11 C12 C13 C14 C17 C18 C19 C20}
export GV_EVIDENCE_DIR=/var/tmp/gv-thor-ev-$$ VERIF_NO_DET=1
bad=0
for id in $ids; do
  out=$(VERIF_BUDGET_S=$budget VERIF_SEED=${VERIF_SEED:-7} timeout $((budget*4+1200)) bin/check $id --tier thorough 2>&1); rc=$?
  echo "$out" | tail -1
  if [ $rc -ne 0 ]; then bad=$((bad+1)); echo "THOROUGH-FAIL $id rc=$rc"; echo "$out" | grep -E "^VIOLATION|^HARNESS|key=" | head -8; fi
done
rm -rf "$GV_EVIDENCE_DIR"
echo "THOROUGH-DONE bad=$bad"
