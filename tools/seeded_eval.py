#!/venv/bin/python
"""tools/seeded_eval.py <ID> <src-dir> <mN> [check-ids...]

Confirm one independently produced change and run the checks against it:
  1. the diff applies to a clean scratch copy of /repo's HEAD          (git worktree under /var/tmp, removed afterwards)
  2. the pinned test suite still passes with it                        (260 passed)
  3. its demonstration fails with the change and passes without it
  4. bin/check <ids> against the patched scratch copy (GV_REPO)        -> detected / missed
Prints a JSON summary; with --keep writes /verif/seeded/<ID>-<mN>/{patch.diff, demo.py, meta.json}.
"""
import json
import os
import shutil
import subprocess
import sys

ROOT = os.path.dirname(os.path.dirname(os.path.abspath(__file__)))


def sh(cmd, cwd=None, timeout=1800, env=None):
    p = subprocess.run(cmd, shell=True, cwd=cwd, capture_output=True, text=True, timeout=timeout, env=env)
    return p.returncode, p.stdout + p.stderr


def main():
    args = [a for a in sys.argv[1:] if not a.startswith("--")]
    keep = "--keep" in sys.argv
    pid, src, m = args[0], args[1], args[2]
    ids = args[3:] or [pid]
    diff = os.path.join(src, m + ".diff")
    demo = os.path.join(src, m + "_demo.py")
    notes = {}
    try:
        notes = json.load(open(os.path.join(src, "notes.json"))).get(m, {})
    except Exception:
        pass
    wt = "/var/tmp/gv-seed-%s-%s-%d" % (pid, m, os.getpid())
    out = {"property": pid, "mutant": m, "notes": notes}
    rc, o = sh("git -C /repo worktree add -q --detach %s HEAD" % wt)
    if rc:
        print("worktree failed", o)
        return 2
    try:
        os.makedirs(os.path.join(wt, "_out"), exist_ok=True)
        shutil.copy(demo, os.path.join(wt, "_out", m + "_demo.py"))
        rc, o = sh("/venv/bin/python _out/%s_demo.py" % m, cwd=wt, timeout=600)
        out["demo_without_change_rc"] = rc
        rc, o = sh("git apply %s" % diff, cwd=wt)
        out["applies"] = rc == 0
        if rc:
            out["apply_error"] = o[-300:]
            print(json.dumps(out, indent=1))
            return 1
        rc, o = sh("/venv/bin/python _out/%s_demo.py" % m, cwd=wt, timeout=600)
        out["demo_with_change_rc"] = rc
        out["demo_tail"] = o[-300:]
        rc, o = sh("/venv/bin/python -m pytest -q -p no:cacheprovider tests 2>&1 | tail -2", cwd=wt, timeout=1200)
        out["tests"] = o.strip().splitlines()[-1] if o.strip() else ""
        out["tests_pass"] = "260 passed" in o and "failed" not in o
        out["confirmed"] = bool(out["tests_pass"] and out["demo_with_change_rc"] != 0 and out["demo_without_change_rc"] == 0)
        det = {}
        env = dict(os.environ, GV_REPO=wt, GV_EVIDENCE_DIR=wt + "/_ev", VERIF_NO_DET="1")
        for cid in ids:
            rc, o = sh("%s/bin/check %s --tier quick" % (ROOT, cid), cwd=ROOT, timeout=3000, env=env)
            keys = [l.strip() for l in o.splitlines() if l.strip().startswith("key=") or l.startswith("VIOLATION")]
            det[cid] = {"rc": rc, "first": keys[:3]}
        out["checks"] = det
        out["detected_by"] = [c for c, d in det.items() if d["rc"] == 1]
        if keep and out["confirmed"]:
            d = os.path.join(ROOT, "seeded", "%s-%s" % (pid, m))
            os.makedirs(d, exist_ok=True)
            shutil.copy(diff, os.path.join(d, "patch.diff"))
            shutil.copy(demo, os.path.join(d, "demo.py"))
            meta = {"property": pid, "summary": notes.get("summary"), "needs_to_manifest": notes.get("needs_to_manifest"),
                    "files": notes.get("files"), "origin": "sub-agent that saw only the property text and a scratch worktree",
                    "confirmed": {"applies_on_HEAD": True, "test_suite": out["tests"], "demo_rc_with_change": out["demo_with_change_rc"],
                                  "demo_rc_without_change": out["demo_without_change_rc"]},
                    "what_was_run": ["git apply patch.diff (scratch worktree of /repo HEAD under /var/tmp)",
                                     "/venv/bin/python -m pytest -q -p no:cacheprovider tests",
                                     "/venv/bin/python demo.py with and without the change",
                                     "GV_REPO=<scratch> bin/check <ID> --tier quick for: " + " ".join(ids)],
                    "detected_by": out["detected_by"], "check_results": det}
            json.dump(meta, open(os.path.join(d, "meta.json"), "w"), indent=1)
    finally:
        sh("git -C /repo worktree remove --force %s" % wt)
        shutil.rmtree(wt, ignore_errors=True)
    print(json.dumps(out, indent=1))
    return 0


if __name__ == "__main__":
    sys.exit(main())
