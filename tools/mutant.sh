#!/bin/bash
# tools/mutant.sh <patch-file> <ID> [<ID>...]  — run quick checks against a scratch copy of /repo with the patch applied.
# Scratch copy lives under /var/tmp/gv-mut-$$ and is removed afterwards.  Evidence goes to a scratch dir too.
set -u
PATCH="$(readlink -f "$1")"; shift
D=/var/tmp/gv-mut-$$
mkdir -p "$D/tests" && cp -r /repo/gunicorn "$D/" && cp -r /repo/tests/requests "$D/tests/"
( cd "$D" && patch -p1 -s < "$PATCH" ) || { echo "PATCH-FAILED $PATCH"; rm -rf "$D"; exit 3; }
find "$D" -name '*.orig' -delete
HERE="$(cd "$(dirname "${BASH_SOURCE[0]}")/.." && pwd)"
rc_all=0
for id in "$@"; do
  out=$(cd "$HERE" && GV_REPO="$D" GV_EVIDENCE_DIR="$D/ev" VERIF_NO_DET=1 timeout 900 bin/check "$id" ${MUT_ARGS:-} 2>&1)
  rc=$?
  echo "$(basename "$PATCH") $id rc=$rc $(echo "$out" | grep -c '^VIOLATION') violation-lines; $(echo "$out" | grep -E '^VIOLATION' | head -2 | cut -c1-160 | tr '\n' '|')"
  [ $rc -eq 1 ] || rc_all=1
done
rm -rf "$D"
exit $rc_all
