#!/bin/bash
# tools/soak.sh <first-seed> <n-seeds> [ID...] — run quick checks under many seeds; print one line per (check, seed) that did not exit 0.
cd "$(dirname "${BASH_SOURCE[0]}")/.."
first=$1; n=$2; shift 2
ids=${@:-C01 C02 C03 C04 C05 C06 C07 C08 C09 C10 C11 C12 C13 C14 C17 C18 C19 C20}
export GV_EVIDENCE_DIR=/var/tmp/gv-soak-ev-$$ VERIF_NO_DET=1
bad=0
for ((s=first; s<first+n; s++)); do
  for id in $ids; do
    out=$(VERIF_SEED=$s timeout 1800 bin/check $id --tier quick 2>&1); rc=$?
    if [ $rc -ne 0 ]; then bad=$((bad+1)); echo "SOAK-FAIL $id seed=$s rc=$rc"; echo "$out" | grep -E "^VIOLATION|^HARNESS|key=" | head -6; fi
  done
  echo "seed $s done ($(date +%H:%M:%S)) bad=$bad"
done
rm -rf "$GV_EVIDENCE_DIR"
echo "SOAK-DONE bad=$bad"
