#!/bin/bash
# tools/refresh_evidence.sh — run every registered quick check against /repo itself, rewrite evidence/<id>.json, validate every evidence
# file and MANIFEST.json against their schemas and regenerate MANIFEST.json.  Prints one line per check; exit 0 only if everything held.
cd "$(dirname "${BASH_SOURCE[0]}")/.."
unset GV_REPO GV_EVIDENCE_DIR
bad=0
for id in C01 C02 C03 C04 C05 C06 C07 C08 C09 C10 C11 C12 C13 C14 C17 C18 C19 C20; do
  out=$(timeout 3000 bin/check $id --tier quick 2>&1); rc=$?
  echo "$out" | tail -n 1
  if [ $rc -ne 0 ]; then bad=$((bad+1)); echo "QUICK-FAIL $id rc=$rc"; echo "$out" | grep -E "^VIOLATION|^HARNESS|key=" | head -8; fi
done
/venv/bin/python tools/gen_manifest.py || bad=$((bad+1))
python3-vt - <<'P' || bad=$((bad+1))
import json, glob, jsonschema, sys
ms = json.load(open("/root/.vp/MANIFEST.schema.json")); es = json.load(open("/root/.vp/EVIDENCE.schema.json"))
jsonschema.validate(json.load(open("MANIFEST.json")), ms)
n = 0
for f in sorted(glob.glob("evidence/*.json")):
    jsonschema.validate(json.load(open(f)), es); n += 1
print("schemas ok: MANIFEST.json + %d evidence files" % n)
P
echo "REFRESH-DONE bad=$bad"
exit $bad
