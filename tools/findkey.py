#!/venv/bin/python
"""tools/findkey.py <ID> <key-substring> [max-index]: print the first run whose violations contain the key."""
import os, sys, json
ROOT = os.path.dirname(os.path.dirname(os.path.abspath(__file__)))
sys.path[0:0] = [os.environ.get("GV_REPO", "/repo"), ROOT]
import importlib
from simkit import runner
from simkit.core import Choices
mod = importlib.import_module("checks." + sys.argv[1].lower())
sub = sys.argv[2]
mx = int(sys.argv[3]) if len(sys.argv) > 3 else 20000
seed = int(os.environ.get("VERIF_SEED", "0"))
for i in range(mx):
    case, s = runner.case_for(mod, seed, i, os.environ.get("VERIF_TIER", "quick"))
    res, err = runner.run_guarded(mod, case, Choices(seed=s ^ 0x5DEECE66D))
    if err:
        if sub == "ERR":
            print(i, err); break
        continue
    hits = [(k, m) for k, m in res.violations if sub in k]
    if hits:
        print("index", i)
        print(json.dumps(case, indent=1, default=repr)[:3000])
        for k, m in res.violations:
            print("KEY", k)
            print("   ", m[:2500])
        break
else:
    print("not found")
