#!/venv/bin/python
"""Regenerate MANIFEST.json from the check modules' own metadata + the table below."""
import importlib
import json
import os
import sys

ROOT = os.path.dirname(os.path.dirname(os.path.abspath(__file__)))
sys.path[0:0] = ["/repo", ROOT]

CHECKS = {
    # id: (engine, level text, level note, technique)
    "C01": ("W1-stream",
            "seeded exploration of obfuscated request streams on a simulated connection, decided by one-sided refinement against an independent strict RFC 9112 framer; sampling, not proof",
            "trusts oracles/http_ref.py as the strict reading; input-dominated: the simulator adds pipelining position, unreader residue, segmentation and EOF at any offset",
            "deterministic simulation of the connection + refinement against an executable reference framer"),
    "C06": ("W1-stream",
            "seeded search over byte streams x segmentation schedules of a simulated connection, with a systematic sweep of single cut positions and byte-at-a-time delivery; a clean batch is evidence, not proof",
            "trusts the CutSock model of recv() (1..n bytes, b'' at EOF); compares the real RequestParser with itself under a maximal-read baseline",
            "deterministic simulation: seeded segmentation schedules + systematic single-cut sweep against a same-stream baseline"),
    "C07": ("W1-stream",
            "seeded exploration of (body framing, consumer program, segmentation, injected EOF) with call-by-call comparison against io.BytesIO over the reference body",
            "trusts io.BytesIO as the file-object semantics and oracles/http_ref.py for the body and the next request's start",
            "deterministic simulation of the connection + reference model (BytesIO) checked operation by operation"),
    "C12": ("W1-stream",
            "seeded exploration of limit boundaries under segmentation, and an adversarial endless lazy peer with a per-recv meter against a configuration-derived bound",
            "the bound B(cfg) and the 2-byte unit band are the harness's reading of the documentation (listed in evidence.assumptions)",
            "deterministic simulation with an adversarial (never-terminating, metered) peer"),
    "C02": ("W2-conn",
            "seeded exploration of (requests, generated WSGI programs incl. failure points, worker family, keep-alive, sendfile, network/syscall fault) with the wire decoded by an independent strict response reader",
            "trusts oracles/resp_ref.py; program-dominated: the simulator adds failure at write k, peer loss at I/O op k, keep-alive continuation on the live connection, sendfile fallback under lseek/fstat faults; HEAD/204/304-with-body programs are a separately keyed sub-check",
            "deterministic simulation of the connection with fault injection + reference response parser"),
    "C05": ("W2-conn",
            "fault enumeration: for every generated or corpus byte stream the connection's I/O operations are counted fault-free, then one run per (operation index, fault kind) - exhaustive over crash points of that workload - each followed by a valid connection to the same worker; plus a kernel-world family in which the real run loops of all four worker classes receive hostile connections ended by half-close / close / reset and must survive and keep serving",
            "'rejected' is judged by what the real RequestParser yields for the same bytes; a fault at op k persists for later ops",
            "deterministic simulation with exhaustive per-operation fault enumeration (peer EOF/RST/EPIPE/ENOTCONN)"),
    "C08": ("W2-conn",
            "seeded exploration of (peer, trust configuration, header spellings, PROXY line, position in a keep-alive connection) against a reference trust mapping written from the documentation",
            "trusts oracles/trust_ref.py; the gthread keep-alive continuation is driven single-threaded by calling the real handle() again on the same TConn",
            "deterministic simulation of keep-alive connection histories + reference mapping"),
    "C09": ("W2-conn",
            "seeded exploration of start_response arguments (every byte class at every field, hop-by-hop names, second calls) with line-by-line comparison of the raw head at the client",
            "program-dominated: the simulator contributes the order of wire effects (refusal precedes the first byte; late start_response after flushed writes)",
            "deterministic simulation of the connection + expected-head model"),
    "C19": ("W2-conn",
            "seeded exploration relating captured gunicorn.access records to what the client end decoded from the wire, over all body paths, all atoms, hostile client data and rejected inputs",
            "record<->response mapping is positional on fault-free connections; failing application calls are outside the statement",
            "deterministic simulation of the connection + wire-derived oracle for log records"),
    "C03": ("W4-master",
            "seeded exploration of histories x schedules: the real Arbiter.run() on a simulated kernel under worker deaths, boot failures (application load, post_worker_init hook, timed at the master's next fork), transient fork / heartbeat-file failures, TTIN/TTOU/HUP, bursts and signals injected at seeded system-call indices of the master; safety on every event, bounded liveness after the last event, against a reference pool model",
            "trusts the simulated kernel's POSIX/PEP 475 rules (listed in evidence.assumptions); workers are scripted stubs booted through the real spawn_worker child side + init_process (fork by re-entry on a deep copy)",
            "deterministic simulation with fault injection: seeded histories and schedules against a reference pool model"),
    "C11": ("W4-master",
            "seeded exploration, two-sided: heartbeat patterns (boundary gaps, hang, hang at boot, SIGSTOP, ignore SIGABRT) x timeout values x wall-clock steps against the real murder_workers/kill/reap/respawn; no kill while silence <= timeout, ABRT/KILL/replace within bounded simulated time otherwise",
            "master side with stub workers implementing the heartbeat contract; worker side with the real sync/gthread/gevent/eventlet loops (gevent and eventlet on shims of the primitives they use): maximum notify() gap vs timeout, also while a retired worker drains",
            "deterministic simulation with fault injection on virtual time (timeout scan vs heartbeat patterns)"),
    "C13": ("W3-worker",
            "seeded exploration of schedules x histories: the real ThreadWorker.run() and handler threads as baton-scheduled simulated threads over a simulated selector/executor/lock, scripted clients, TERM; invariants on every kernel event (incl. 'what select() reported is acted upon'), bounded liveness outside faults in two keyed regimes",
            "trusts the SimSelector/SimExecutor/SimRLock contracts (Appendix D); pre-emption at simulated system calls, lock/executor/selector operations and (a third of the runs) at CPython eval-breaker points inside gthread.py via sys.monitoring",
            "deterministic simulation of threads (baton passing) with seeded scheduling and fault injection"),
    "C17": ("W5-pidfile",
            "fault enumeration: seeded operation histories by 2-3 instances checked against a model of the path's content, then one run per system-call index of the last create/rename (crash) and per file-system call (ENOSPC/EACCES) - exhaustive over crash points of that operation; plus a family in which 2-3 masters call create() at the same moment and their system calls interleave under the seeded scheduler",
            "operations of different instances are atomic w.r.t. each other (the property's own quantifier); rename(2) atomic; pid liveness = kill(pid, 0)",
            "deterministic simulation with exhaustive crash-point enumeration on a simulated file system"),
    "C04": ("W4-master",
            "seeded exploration in three families: the real sync/gthread/gevent/eventlet worker process with clients driven into each connection phase and TERM/QUIT/INT at a seeded time or system-call index (W3); the real Arbiter with stub workers that obey/overrun/ignore (W4); the real Arbiter with the real workers and clients end to end",
            "the real GeventWorker.run() and EventletWorker.run()/_eventlet_serve execute on shims of the gevent / eventlet primitives they use (simkit/gevent_shim.py, simkit/eventlet_shim.py); the libraries' own hub scheduling is not modelled; slack constants are listed in evidence.assumptions",
            "deterministic simulation with signal injection at seeded delivery points; bounded-liveness and end-state oracles"),
    "C10": ("W4-master",
            "seeded exploration of HUP timings against a continuous client stream; kernel-level oracle on the identity and openness of the listening open-file-description, connect() refusals, pool age/size/configuration after the last reload, and per-request completion; stub and real-worker families",
            "bind unchanged; gevent and eventlet via shims; gthread/async connections accepted but never read are outside the statement (counted as a probe)",
            "deterministic simulation of reload histories with kernel-level observation of descriptors"),
    "C14": ("W4-master",
            "seeded exploration of orderings of USR2 / TERM / QUIT / WINCH / HUP / kill of either master under client load, TCP and unix binds; the exec'd binary is the same real Arbiter started from the environment the real reexec() built; stub workers, or (3/7 of the runs) the real sync/gthread/gevent/eventlet workers serving the clients on both sides of the hand-over; faults: the new binary cannot be exec'd (execvpe failing), the new release cannot boot its workers, HUP to the new master",
            "execvpe model: non-CLOEXEC descriptors survive, environment replaced; systemd socket activation not in these histories",
            "deterministic simulation of two-master histories (fork+exec on the simulated kernel) with event-level invariants"),
    "C18": ("W3-worker",
            "seeded exploration of max_requests/jitter x sequential and concurrent client load against the real sync/gthread/gevent/eventlet workers (W3) and against the real Arbiter + real workers (W4): counting rule, no accept after the limit (no allowance for the async workers' heartbeat period), in-flight requests answered, replacement, no refusal",
            "keep-alive reuse races are not counted as drops; gevent and eventlet via shims; the counting rule itself is also checked on the real handle() of all three families (W2)",
            "deterministic simulation with seeded scheduling; oracle over the recorded connection history"),
    "C20": ("W4-master",
            "seeded exploration of user/group spellings x initgroups x histories creating worker generations (kill, HUP, USR2, TTIN) with EPERM injected into privilege calls; credentials sampled from the simulated kernel at the first instruction of application loading in every worker and, in a third of the runs, at every application call of a real sync/gthread/gevent/eventlet worker serving clients",
            "POSIX credential rules as implemented by the simulated kernel; names resolved against the sandbox's passwd/group files",
            "deterministic simulation with syscall fault injection; kernel-state oracle at application load"),
}

NOT_APPLICABLE = [
    {"property_id": "C15", "reason": "pure function of one accepted request and the configuration: no schedule, clock, fault, interleaving or history in the statement (DESIGN.md §5)"},
    {"property_id": "C16", "reason": "pure function of (argv, environment, file contents, defaults) evaluated once at start-up: no concurrency, time, fault or multi-party behaviour (DESIGN.md §5)"},
]
PENDING = {}


def main():
    checks = []
    engines = {}
    for pid in sorted(CHECKS):
        eng, text, note, tech = CHECKS[pid]
        mod = importlib.import_module("checks." + pid.lower())
        engines.setdefault(eng, []).append(pid)
        checks.append({
            "property_id": pid,
            "quick_cmd": "bin/check %s --tier quick" % pid,
            "thorough_cmd": "bin/check %s --tier thorough" % pid,
            "evidence_file": "evidence/%s.json" % pid,
            "replay_cmd_template": "bin/check %s --replay {path}" % pid,
            "engine": eng,
            "level_claimed": {"category": mod.LEVEL, "text": text, "design_ref": mod.DESIGN_REF},
            "level_note": note,
            "technique": tech,
        })
    na = list(NOT_APPLICABLE) + [{"property_id": k, "reason": v} for k, v in sorted(PENDING.items())]
    kinds = {
        "W1-stream": ("worlds/stream.py", "real gunicorn.http parser stack on a simulated connection (segmentation, EOF, endless peer)"),
        "W2-conn": ("worlds/conn.py", "real worker handle()/handle_request()/handle_error + http.wsgi + glogging on a simulated connection with fault at I/O op k"),
        "W3-worker": ("worlds/worker.py", "real SyncWorker.run / ThreadWorker.run + handler threads under the baton scheduler on the simulated kernel"),
        "W4-master": ("worlds/master.py", "real Arbiter.run, sock, pidfile, systemd, workertmp on the simulated kernel (processes, signals, fds, SimFS, clock)"),
        "W5-pidfile": ("worlds/pidfs.py", "real Pidfile on SimFS with crash at syscall k"),
    }
    m = {
        "version": 1,
        "setup_cmd": "bin/setup",
        "hooks": {
            "guard": "GUNICORN_VERIF",
            "enable": "no source hook exists: the simulator replaces names in gunicorn's module namespaces at run time (simkit seams); bin/check exports GUNICORN_VERIF=1 but no line of /repo reads it",
            "baseline_off_cmd": "cd /repo && /venv/bin/python -m pytest -ra -q -p no:cacheprovider --timeout=900 --continue-on-collection-errors",
            "source_commits": [],
            "add_only": True,
        },
        "engines": [{"name": "simkit", "path": "simkit/", "serves_properties": sorted(CHECKS),
                     "kind_free_text": "deterministic simulation kernel: seeded choice log, event log with rolling digest, fork-pool runner, minimiser, replay"}]
                   + [{"name": e, "path": kinds[e][0], "serves_properties": sorted(p), "kind_free_text": kinds[e][1]}
                      for e, p in sorted(engines.items())],
        "checks": checks,
        "not_applicable": na,
        "notes": "every check: exit 0 held (KNOWN-FINDING lines allowed), 1 VIOLATION, 2 HARNESS-ERROR; known_findings.json lists known and fixed findings; fix: commits in /repo are listed there with their hashes",
    }
    with open(os.path.join(ROOT, "MANIFEST.json"), "w") as f:
        json.dump(m, f, indent=1)
    print("MANIFEST.json: %d checks, %d not_applicable" % (len(checks), len(na)))


if __name__ == "__main__":
    main()
